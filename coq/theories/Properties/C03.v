(* Properties/C03.v — OSM XML decoding is faithful; the streaming scan equals whole-document
   decode.  Only statements; proofs are in Verif.Codec.* and Verif.C03.*.

   FULL STATEMENTS (targets):
     decode_faithful : forall T v doc, wfb gen_schema T v = true ->
        noise (spec_doc T v) doc ->                 (* extra unknown attributes / clean unknown
                                                       elements, any attribute order, children
                                                       shuffled keeping the order within a name,
                                                       osmChange blocks split and interleaved *)
        decode gen_schema T doc = Ok v
     scanner_eq_decode : forall T doc, doc_ok T doc = true ->
        decode gen_schema T doc = Ok v ->
        scan_el gen_schema doc = (objects of doc in document order, None) and every per-kind /
        per-block list of v is the sub-sequence of that scan with that block and kind.
   PARTIAL: proved for all structs, values, positions and fuels are the two facts the first
   statement rests on besides the C04 round trip — the struct decoder is field-wise (so attribute
   order and the interleaving of differently named children are irrelevant) and an unknown
   attribute is ignored wherever it stands.  The scanner statement is only instantiated on
   examples; both statements are evaluated inside Coq on every generated document by Check.v. *)
From Coq Require Import List String Bool ZArith.
From Verif Require Import Codec.Schema Codec.Value Codec.Xml Codec.Scan Codec.ProofsAttr Codec.ProofsKids
     Codec.ProofsRT C03.Spec C03.Proofs.
From VerifGen Require Import GenSchema.
Import ListNotations.
Open Scope string_scope.
Open Scope list_scope.

(* independence of unknown attributes: an attribute that names no attr field of the struct can
   be inserted anywhere in the start element *)
Theorem unknown_attr_ignored_partial : forall sch a1 fs vs an a a2,
  List.length fs = List.length vs ->
  (forall f, In f fs -> attr_hit sch f an = false) ->
  unmarshal_attrs sch fs vs (a1 ++ (an, a) :: a2) = unmarshal_attrs sch fs vs (a1 ++ a2).
Proof. exact unknown_attr_ignored_gen. Qed.
Print Assumptions unknown_attr_ignored_partial.

(* independence of unknown elements: an element that matches no element field of the struct
   (PNone for every field) can be inserted anywhere among the children *)
Theorem unknown_child_ignored_partial : forall sch unm k1 fs vs c k2,
  (forall f, In f fs -> path_match sch f [] (xname c) = PNone) ->
  List.length fs = List.length vs ->
  unmarshal_kids sch unm fs vs [] false (k1 ++ c :: k2) = unmarshal_kids sch unm fs vs [] false (k1 ++ k2).
Proof. exact unknown_child_ignored_gen. Qed.
Print Assumptions unknown_child_ignored_partial.

(* independence of attribute order and of the interleaving of children with different names:
   the decoder's loops compute a per-field fold (distinct element names, no a>b path) *)
Theorem decoder_is_fieldwise_partial : forall sch unm d bs e st1 st2,
  all_supported (struct_fields d) = true ->
  (String.eqb (xmlname_tag d) "" || String.eqb (xmlname_tag d) (xname e)) = true ->
  parents_ok (struct_fields d) = true ->
  nodup_strb (elem_keys sch (struct_fields d)) = true ->
  Forall3 (fun f b r => absorb_attrs sch f b (xattrs e) = Ok r) (struct_fields d) bs st1 ->
  Forall3 (fun f b r => absorb_kids sch unm f b (xkids e) = Ok r) (struct_fields d) st1 st2 ->
  unmarshal_struct sch unm d (VStruct bs) e = Ok (VStruct st2).
Proof. exact unmarshal_struct_fieldwise. Qed.
Print Assumptions decoder_is_fieldwise_partial.

(* a field only sees its own children: elements with other names can be interleaved freely *)
Theorem field_skips_foreign_children_partial : forall sch unm f kids x,
  (forall c, In c kids -> key_hit sch f (xname c) = false) -> absorb_kids sch unm f x kids = Ok x.
Proof. exact absorb_kids_skip. Qed.
Print Assumptions field_skips_foreign_children_partial.

(* Boundary of the domain: an unknown element wrapping a known object element is stepped into
   by the token-level scanner but skipped as a whole by the document decoder, so the two
   readers differ there; such documents are excluded by doc_ok (clean unknown elements). *)
Theorem scanner_descends_unknown_example :
  exists doc, doc_ok "OSM" doc = false /\
              fst (scan_el gen_schema doc) <> [] /\
              decode gen_schema "OSM" doc = Ok (zero gen_schema FUEL (TNamed "OSM")).
Proof. exact scanner_descends_unknown. Qed.
Print Assumptions scanner_descends_unknown_example.

(* non-vacuity / instance: repeated and interleaved osmChange blocks *)
Example interleaved_blocks :
  doc_ok "Change" interleaved_doc = true /\
  node_ids (fst (scan_el gen_schema interleaved_doc)) = [VInt 1; VInt 2; VInt 3] /\
  match decode gen_schema "Change" interleaved_doc with Ok _ => true | Err _ => false end = true.
Proof. exact interleaved_blocks_example. Qed.
