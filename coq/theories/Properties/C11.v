(* Properties/C11.v — Annotation reconstructs, for any time, the child versions that were current.
   ONLY statements closed by [exact], Print Assumptions, and non-vacuity Examples.
   Model: Annotate/Model.v; ground truth: C11/Spec.v ([current_at], [stamp]). *)
From Coq Require Import ZArith List Bool Permutation Sorted.
From Verif Require Import Annotate.Model Annotate.SortProofs Annotate.Plans Annotate.Determinism
  C11.Spec C11.Proofs.
Import ListNotations.
Open Scope Z_scope.

(* 1. commit-time regime (all commit times of the child known, non-decreasing in version):
      FindVisible returns exactly the version current at [at_] when it is visible, else nothing —
      for every changeset id and every threshold. *)
Theorem C11_find_visible_commit : forall cis cid at_ eps cl,
  forallb (commit_child cis) cl = true -> stamps_monotone cis cl = true ->
  find_visible cis cl cid at_ eps = visible_only (current_at cis cl at_).
Proof. exact find_visible_commit. Qed.
Print Assumptions C11_find_visible_commit.
