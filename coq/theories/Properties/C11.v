(* Properties/C11.v — Annotation reconstructs, for any time, the child versions that were current.

   ONLY statements closed by [exact], Print Assumptions, and non-vacuity Examples.
   Model: Annotate/Model.v (compute_with = core.Compute with explicit map iteration order
   [entries] and sort.Sort behaviour [sortf]; apply_updates_up_to = ApplyUpdatesUpTo).
   Ground truth: C11/Spec.v — [stamp] (commit time when known, else timestamp), [current_at hist T]
   (the last version in version order whose stamp is <= T).
   [valid_order o ps entries]: entries is any permutation of the child-location map.
   Every theorem holds for every value of osm.CommitInfoStart ([cis]), every threshold, every
   filter, every iteration order. *)
From Coq Require Import ZArith List Bool Permutation Sorted.
From Verif Require Import Annotate.Model Annotate.SortProofs Annotate.Plans Annotate.Determinism
  Annotate.Date Annotate.GenOk C11.Spec C11.Proofs C11.Exact C11.TimeTravel C11.Generic C11.FindVisibleSpec C11.Mixed C11.Any C11.SpecDomain C11.Upper C11.Witness2 C12.Proofs.
From VerifGen Require Import GenAnnotate GenAnnotateConst.
Import ListNotations.
Open Scope Z_scope.

(* 1. commit-time regime (commit times of the child known and non-decreasing in version):
      FindVisible returns exactly the version current at [at_] if it is visible, else nothing —
      for every changeset id and every threshold. *)
Theorem C11_find_visible_commit : forall cis cid at_ eps cl,
  forallb (commit_child cis) cl = true -> stamps_monotone cis cl = true ->
  find_visible cis cl cid at_ eps = visible_only (current_at cis cl at_).
Proof. exact find_visible_commit. Qed.
Print Assumptions C11_find_visible_commit.

(* 2. "each child reference carries the version, changeset and location of the child that was
      current when that parent version was committed" (commit-time regime; [set_ref c r] writes
      version, changeset, lat, lon of c).  When that version is deleted the reference is left
      alone — which can only happen with IgnoreInconsistency, see theorem 7. *)
Theorem C11_annotate_child_current :
  forall cis o ps hist entries sortf ps' results p par j r cl,
  valid_order o ps entries ->
  compute_with cis o ps hist entries sortf = Ok (ps', results) ->
  nth_error ps p = Some par -> p_visible par = true ->
  nth_error (p_refs par) j = Some r -> filtered_out (o_filter o) r = false ->
  hist (r_id r) = HFound cl -> cl <> [] ->
  forallb (commit_child cis) cl = true -> stamps_monotone cis cl = true ->
  exists par' r',
    nth_error ps' p = Some par' /\ nth_error (p_refs par') j = Some r' /\
    r' = match visible_only (current_at cis cl (pstamp cis par)) with
         | Some c => set_ref c r
         | None => r
         end.
Proof. exact annotate_child_current. Qed.
Print Assumptions C11_annotate_child_current.

(* 2'. every regime: the reference carries exactly what FindVisible selects for this parent
       (closest visible version in the threshold window, later ones only from the parent's
       changeset, else the previous one if visible) *)
Theorem C11_annotate_child_selected :
  forall cis o ps hist entries sortf ps' results p par j r cl,
  valid_order o ps entries ->
  compute_with cis o ps hist entries sortf = Ok (ps', results) ->
  nth_error ps p = Some par -> p_visible par = true ->
  nth_error (p_refs par) j = Some r -> filtered_out (o_filter o) r = false ->
  hist (r_id r) = HFound cl -> cl <> [] ->
  exists par' r',
    nth_error ps' p = Some par' /\ nth_error (p_refs par') j = Some r' /\
    r' = match find_visible cis cl (p_changeset par) (pstamp cis par) (o_threshold o) with
         | Some c => set_ref c r
         | None => r
         end.
Proof. exact annotate_child_selected. Qed.
Print Assumptions C11_annotate_child_selected.

(* 3. "Deleted parent versions receive no annotations" (and no updates) *)
Theorem C11_deleted_parent_untouched :
  forall cis o ps hist entries sortf ps' results p par,
  sort_spec less sortf ->
  compute_with cis o ps hist entries sortf = Ok (ps', results) ->
  nth_error ps p = Some par -> p_visible par = false ->
  nth_error ps' p = Some par /\ nth_error results p = Some [].
Proof. exact deleted_parent_untouched. Qed.
Print Assumptions C11_deleted_parent_untouched.

(* 4. missing child history (not found, or found but empty — repaired by /repo a5cf8e2): every run
      fails unless IgnoreMissingChildren ... *)
Theorem C11_missing_history_error :
  forall cis o ps hist entries sortf p par j r,
  valid_order o ps entries ->
  nth_error ps p = Some par -> nth_error (p_refs par) j = Some r ->
  filtered_out (o_filter o) r = false -> missing_hist (hist (r_id r)) = true -> o_ignore_missing o = false ->
  exists e, compute_with cis o ps hist entries sortf = Err e.
Proof. exact missing_history_error. Qed.
Print Assumptions C11_missing_history_error.

(* 5. ... and the typed NoHistoryError is reported only for such a child, option off *)
Theorem C11_no_history_error_typed :
  forall cis o ps hist entries sortf fid,
  compute_with cis o ps hist entries sortf = Err (ENoHistory fid) ->
  o_ignore_missing o = false /\ missing_hist (hist fid) = true /\ exists locs, In (fid, locs) entries.
Proof. exact no_history_error_typed. Qed.
Print Assumptions C11_no_history_error_typed.

(* 6. no visible child at a visible parent: every run fails unless IgnoreInconsistency ... *)
Theorem C11_no_visible_child_error :
  forall cis o ps hist entries sortf p par j r cl,
  valid_order o ps entries ->
  nth_error ps p = Some par -> p_visible par = true -> nth_error (p_refs par) j = Some r ->
  filtered_out (o_filter o) r = false -> hist (r_id r) = HFound cl -> cl <> [] ->
  find_visible cis cl (p_changeset par) (pstamp cis par) (o_threshold o) = None ->
  o_ignore_incons o = false ->
  exists e, compute_with cis o ps hist entries sortf = Err e.
Proof. exact no_visible_child_error. Qed.
Print Assumptions C11_no_visible_child_error.

(* 7. ... and the typed NoVisibleChildError names a child and the time of a visible parent at
      which FindVisible selects nothing (in the commit regime: the current version is deleted or
      does not exist yet, by theorem 1), option off *)
Theorem C11_no_visible_child_error_typed :
  forall cis o ps hist entries sortf fid ts,
  compute_with cis o ps hist entries sortf = Err (ENoVisibleChild fid ts) ->
  o_ignore_incons o = false /\
  exists locs cl p par,
    In (fid, locs) entries /\ hist fid = HFound cl /\ nth_error ps p = Some par /\
    p_visible par = true /\ ts = pstamp cis par /\
    find_visible cis cl (p_changeset par) (pstamp cis par) (o_threshold o) = None.
Proof. exact no_visible_child_error_typed. Qed.
Print Assumptions C11_no_visible_child_error_typed.

(* 8. updates_exact (commit-time regime: commit times of this parent, the next parent and the child
      known; child stamps non-decreasing; [vidx_ok]: VersionIndex = position, as the datasource
      wrappers produce, theorem 12).  With s the version selected for (p, j) — by theorem 2 the one
      current at the parent's commit — the update list of parent p contains, at index j, exactly
      one update for every VISIBLE version ck of the child that is later than s and within
      [bound_ok]: no bound for the last parent version; otherwise, with cn the (visible) version
      current at the next parent version: the versions before cn, and cn itself only if it was
      committed strictly before the next parent; if the version current at the next parent is
      deleted or absent: the versions committed strictly before the next parent.  Each update is
      [child_update ck j]: version, changeset, location of ck, stamped by theorem 11 with its
      commit time.  (With known commit times the code does not subtract the threshold.) *)
Theorem C11_updates_exact :
  forall cis o ps hist entries sortf ps' results p par j r cl s,
  valid_order o ps entries -> sort_spec less sortf ->
  compute_with cis o ps hist entries sortf = Ok (ps', results) ->
  nth_error ps p = Some par -> p_visible par = true ->
  commit_parent cis par = true -> np_commit cis (nth_error ps (S p)) ->
  nth_error (p_refs par) j = Some r -> filtered_out (o_filter o) r = false ->
  hist (r_id r) = HFound cl -> cl <> [] ->
  vidx_ok cl -> stamps_monotone cis cl = true -> forallb (commit_child cis) cl = true ->
  visible_only (current_at cis cl (pstamp cis par)) = Some s ->
  exists us,
    nth_error results p = Some us /\
    forall u, (In u us /\ u_index u = j) <->
      exists ck, In ck cl /\ c_visible ck = true /\ u = child_update cis ck j /\
                 (c_vidx s < c_vidx ck)%nat /\ bound_ok cis cl (nth_error ps (S p)) ck.
Proof. exact updates_exact. Qed.
Print Assumptions C11_updates_exact.

(* 8'. without IgnoreInconsistency every version inside those bounds is visible (otherwise the
       annotation fails with "child deleted between parent versions") *)
Theorem C11_between_visible :
  forall cis o ps hist entries sortf ps' results p par j r cl s,
  valid_order o ps entries ->
  compute_with cis o ps hist entries sortf = Ok (ps', results) ->
  nth_error ps p = Some par -> p_visible par = true ->
  commit_parent cis par = true -> np_commit cis (nth_error ps (S p)) ->
  nth_error (p_refs par) j = Some r -> filtered_out (o_filter o) r = false ->
  hist (r_id r) = HFound cl -> cl <> [] ->
  vidx_ok cl -> stamps_monotone cis cl = true -> forallb (commit_child cis) cl = true ->
  visible_only (current_at cis cl (pstamp cis par)) = Some s ->
  o_ignore_incons o = false ->
  forall ck, In ck cl -> (c_vidx s < c_vidx ck)%nat -> bound_ok cis cl (nth_error ps (S p)) ck ->
  c_visible ck = true.
Proof. exact between_visible. Qed.
Print Assumptions C11_between_visible.

(* 9. time_travel (commit-time regime).  For every t from the commit of parent version p up to
      (excluding) the commit of the next version — no upper limit for the last version; this
      contains the property's window "before the next version less the threshold" — applying the
      updates of the annotated parent up to t leaves at reference j the version, changeset and
      location of the child version current at t.
      Extra hypotheses: [hist_ok] distinct versions, [versions_mono] versions increase with the
      position (theorem 12), [stamp_consistent] the update stamp of a version is its commit time,
      and the version CURRENT AT t, when later than the selected one, is visible (deleted versions
      in between are skipped under IgnoreInconsistency and do not matter; automatic without
      IgnoreInconsistency: theorem 9'). *)
Theorem C11_time_travel :
  forall cis o ps hist entries sortf ps' results p par j r cl s,
  hist_ok hist -> valid_order o ps entries -> sort_spec less sortf ->
  compute_with cis o ps hist entries sortf = Ok (ps', results) ->
  nth_error ps p = Some par -> p_visible par = true ->
  commit_parent cis par = true -> np_commit cis (nth_error ps (S p)) ->
  nth_error (p_refs par) j = Some r -> filtered_out (o_filter o) r = false ->
  hist (r_id r) = HFound cl -> cl <> [] ->
  vidx_ok cl -> stamps_monotone cis cl = true -> forallb (commit_child cis) cl = true ->
  versions_mono cl -> (forall ck, In ck cl -> stamp_consistent cis ck = true) ->
  visible_only (current_at cis cl (pstamp cis par)) = Some s ->
  forall is_rel t par' us refs' pend,
  in_window_commit cis ps p par t ->
  (forall e, current_at cis cl t = Some e -> (c_vidx s < c_vidx e)%nat -> c_visible e = true) ->
  nth_error ps' p = Some par' -> nth_error results p = Some us ->
  apply_updates_up_to is_rel t (p_refs par') us = ApplyOk refs' pend ->
  exists e r', current_at cis cl t = Some e /\ nth_error refs' j = Some r' /\ ref_carries r' e.
Proof. exact time_travel. Qed.
Print Assumptions C11_time_travel.

(* 9'. the same without the visibility side condition when IgnoreInconsistency is off *)
Theorem C11_time_travel_strict :
  forall cis o ps hist entries sortf ps' results p par j r cl s,
  hist_ok hist -> valid_order o ps entries -> sort_spec less sortf ->
  compute_with cis o ps hist entries sortf = Ok (ps', results) ->
  nth_error ps p = Some par -> p_visible par = true ->
  commit_parent cis par = true -> np_commit cis (nth_error ps (S p)) ->
  nth_error (p_refs par) j = Some r -> filtered_out (o_filter o) r = false ->
  hist (r_id r) = HFound cl -> cl <> [] ->
  vidx_ok cl -> stamps_monotone cis cl = true -> forallb (commit_child cis) cl = true ->
  versions_mono cl -> (forall ck, In ck cl -> stamp_consistent cis ck = true) ->
  visible_only (current_at cis cl (pstamp cis par)) = Some s ->
  forall is_rel t par' us refs' pend,
  o_ignore_incons o = false ->
  in_window_commit cis ps p par t ->
  nth_error ps' p = Some par' -> nth_error results p = Some us ->
  apply_updates_up_to is_rel t (p_refs par') us = ApplyOk refs' pend ->
  exists e r', current_at cis cl t = Some e /\ nth_error refs' j = Some r' /\ ref_carries r' e.
Proof. exact time_travel_strict. Qed.
Print Assumptions C11_time_travel_strict.

(* 10. ApplyUpdatesUpTo never reports an index error on an annotation result, keeps the number of
       references and leaves exactly the updates later than t pending, in order; in general it
       overwrites each reference by the applicable updates of its index in list order, and on a
       list ordered by (index, time, version) the greatest applicable one wins *)
Theorem C11_apply_annotated_ok :
  forall cis o ps hist entries sortf ps' results p par par' us is_rel t,
  valid_order o ps entries -> sort_spec less sortf ->
  compute_with cis o ps hist entries sortf = Ok (ps', results) ->
  nth_error ps p = Some par -> nth_error ps' p = Some par' -> nth_error results p = Some us ->
  exists refs',
    apply_updates_up_to is_rel t (p_refs par') us = ApplyOk refs' (filter (fun u => u_timestamp u >? t) us) /\
    length refs' = length (p_refs par).
Proof. exact apply_annotated_ok. Qed.
Print Assumptions C11_apply_annotated_ok.

Theorem C11_apply_updates_semantics :
  (forall is_rel t us refs,
     (forall u, In u us -> u_timestamp u >? t = false -> (u_index u < length refs)%nat) ->
     exists refs',
       apply_updates_up_to is_rel t refs us = ApplyOk refs' (filter (fun u => u_timestamp u >? t) us) /\
       length refs' = length refs /\
       forall j r, nth_error refs j = Some r -> nth_error refs' j = Some (applied_ref is_rel t us j r)) /\
  (forall is_rel t j us,
     StronglySorted itv_le us -> key_functional us ->
     forall r u, In u us -> applicable t j u = true ->
     (forall u', In u' us -> applicable t j u' = true -> itv_le u' u) ->
     let r' := applied_ref is_rel t us j r in
     r_version r' = u_version u /\ r_changeset r' = u_changeset u /\ r_lat r' = u_lat u /\ r_lon r' = u_lon u) /\
  (forall is_rel t j us r,
     (forall u, In u us -> applicable t j u = false) -> applied_ref is_rel t us j r = r).
Proof. split; [exact apply_exact|split; [exact applied_sorted_max|exact applied_none]]. Qed.
Print Assumptions C11_apply_updates_semantics.

(* 11. "stamped with their commit time": a regime-consistent version yields an update stamped with
       its stamp (commit time when known) *)
Theorem C11_update_stamp : forall cis ck j,
  stamp_consistent cis ck = true -> u_timestamp (child_update cis ck j) = stamp cis ck.
Proof. exact child_update_stamp. Qed.
Print Assumptions C11_update_stamp.

(* 12. the histories the datasource wrappers build (sort by version, number) have the assumed shape *)
Theorem C11_to_child_list_shape : forall fid l,
  vidx_ok (to_child_list fid l) /\ versions_mono (to_child_list fid l).
Proof. intros fid l. split; [exact (to_child_list_vidx_ok fid l)|exact (to_child_list_versions_mono fid l)]. Qed.
Print Assumptions C11_to_child_list_shape.

(* 13. time_travel_generic — every pure regime ([regime_ok]: commit times of the child versions and
       of the next parent all known, or all unknown: timestamp +- threshold with same-changeset
       forward grouping), whatever version s FindVisible selected for (p, j).  For every t before
       the bound of the next parent version ([before_bound]: its commit time when known, else its
       timestamp less the threshold; no bound for the last version), applying the updates of the
       annotated parent up to t leaves at reference j the later of s and the version current at t. *)
Theorem C11_time_travel_generic :
  forall cis o ps hist entries sortf ps' results p par j r cl s,
  hist_ok hist -> valid_order o ps entries -> sort_spec less sortf ->
  compute_with cis o ps hist entries sortf = Ok (ps', results) ->
  nth_error ps p = Some par -> p_visible par = true ->
  nth_error (p_refs par) j = Some r -> filtered_out (o_filter o) r = false ->
  hist (r_id r) = HFound cl -> cl <> [] ->
  vidx_ok cl -> stamps_monotone cis cl = true -> versions_mono cl ->
  (forall ck, In ck cl -> stamp_consistent cis ck = true) ->
  0 <= o_threshold o -> regime_ok cis cl (nth_error ps (S p)) ->
  find_visible cis cl (p_changeset par) (pstamp cis par) (o_threshold o) = Some s ->
  forall is_rel t par' us refs' pend,
  before_bound cis o (nth_error ps (S p)) t ->
  (forall e, current_at cis cl t = Some e -> (c_vidx s < c_vidx e)%nat -> c_visible e = true) ->
  nth_error ps' p = Some par' -> nth_error results p = Some us ->
  apply_updates_up_to is_rel t (p_refs par') us = ApplyOk refs' pend ->
  exists e r', later (Some s) (current_at cis cl t) = Some e /\ nth_error refs' j = Some r' /\ ref_carries r' e.
Proof. exact time_travel_generic. Qed.
Print Assumptions C11_time_travel_generic.

(* 13'. the update list of a reference in every regime: exactly the visible versions at positions
        after the selected one and before nextVersion, which (13'') covers every version stamped
        before the bound of the next parent version *)
Theorem C11_updates_slice :
  forall cis o ps hist entries sortf ps' results p par j r cl s,
  valid_order o ps entries -> sort_spec less sortf ->
  compute_with cis o ps hist entries sortf = Ok (ps', results) ->
  nth_error ps p = Some par -> p_visible par = true ->
  nth_error (p_refs par) j = Some r -> filtered_out (o_filter o) r = false ->
  hist (r_id r) = HFound cl -> cl <> [] ->
  find_visible cis cl (p_changeset par) (pstamp cis par) (o_threshold o) = Some s ->
  exists us nv,
    nth_error results p = Some us /\
    next_version_index cis (Some s) cl (nth_error ps (S p)) o = Ok nv /\
    forall u, (In u us /\ u_index u = j) <->
      exists ck i, nth_error cl i = Some ck /\ c_visible ck = true /\ (c_vidx s < i)%nat /\ (i < nv)%nat /\
                   u = child_update cis ck j.
Proof. exact updates_slice. Qed.
Print Assumptions C11_updates_slice.

Theorem C11_next_version_covers : forall cis o cl np s nv,
  0 <= o_threshold o -> vidx_ok cl -> stamps_monotone cis cl = true -> cl <> [] ->
  regime_ok cis cl np -> nth_error cl (c_vidx s) = Some s ->
  next_version_index cis (Some s) cl np o = Ok nv ->
  forall i ck, nth_error cl i = Some ck -> (c_vidx s < i)%nat ->
  before_bound cis o np (stamp cis ck) -> (i < nv)%nat.
Proof. exact nv_covers. Qed.
Print Assumptions C11_next_version_covers.


(* 14. find_visible_spec — timestamp regime (commit times of the child unknown), windows without
       deleted versions ([Hwin]; the version before the window may be deleted).  FindVisible
       returns the CLOSEST CANDIDATE: candidates are the versions stamped inside
       [at - eps, at + eps], those stamped after [at] only if they belong to the parent's changeset;
       closest for |stamp - at|, the later version on ties; and when there is no candidate, the
       previous version (VersionBefore(at - eps): the last one stamped before the window) if it is
       visible.  (A deleted version INSIDE the window does not reset the choice except at the exact
       window start, and it shortens the reach of later candidates: those corners are excluded by
       [Hwin] and covered by correspondence only.) *)
Theorem C11_find_visible_spec : forall cis cid at_ eps cl,
  0 <= eps -> mono cis cl -> forallb (ts_child cis) cl = true ->
  (forall c, In c cl -> in_win cis at_ eps c -> c_visible c = true) ->
  find_visible_spec cis cid at_ eps cl (find_visible cis cl cid at_ eps).
Proof. exact find_visible_meets_spec. Qed.
Print Assumptions C11_find_visible_spec.

Example C11_hyps_find_visible_spec :
  0 <= o_threshold g_opts /\ mono g_cis g_cl /\ forallb (ts_child g_cis) g_cl = true /\
  (forall c, In c g_cl -> in_win g_cis (g_t 0) (o_threshold g_opts) c -> c_visible c = true) /\
  (exists c, In c g_cl /\ cand g_cis 7 (g_t 0) (o_threshold g_opts) c).
Proof.
  split; [vm_compute; discriminate|]. split; [apply stamps_monotone_mono; vm_compute; reflexivity|].
  split; [vm_compute; reflexivity|]. split.
  - intros c Hc _. revert c Hc. apply forallb_forall. vm_compute. reflexivity.
  - eexists. split; [right; left; reflexivity|]. unfold cand, in_win. vm_compute.
    repeat split; try discriminate. right. reflexivity.
Qed.

(* 16. time_travel_any — NO regime hypothesis: versions with and without commit times may be
       mixed in one history and the parents may be of any regime.  Same conclusion as theorem 13.
       (Proof: the loop invariant of FindVisible that holds for every mixture — no version that is
       stamped before the window, or visible and stamped no later than [at], is later than the
       selected one — and the coverage of nextVersionIndex for visible versions.) *)
Theorem C11_time_travel_any :
  forall cis o ps hist entries sortf ps' results p par j r cl s,
  hist_ok hist -> valid_order o ps entries -> sort_spec less sortf ->
  compute_with cis o ps hist entries sortf = Ok (ps', results) ->
  nth_error ps p = Some par -> p_visible par = true ->
  nth_error (p_refs par) j = Some r -> filtered_out (o_filter o) r = false ->
  hist (r_id r) = HFound cl -> cl <> [] ->
  vidx_ok cl -> stamps_monotone cis cl = true -> versions_mono cl ->
  (forall ck, In ck cl -> stamp_consistent cis ck = true) ->
  0 <= o_threshold o ->
  find_visible cis cl (p_changeset par) (pstamp cis par) (o_threshold o) = Some s ->
  forall is_rel t par' us refs' pend,
  before_bound cis o (nth_error ps (S p)) t ->
  (forall e, current_at cis cl t = Some e -> (c_vidx s < c_vidx e)%nat -> c_visible e = true) ->
  nth_error ps' p = Some par' -> nth_error results p = Some us ->
  apply_updates_up_to is_rel t (p_refs par') us = ApplyOk refs' pend ->
  exists e r', later (Some s) (current_at cis cl t) = Some e /\ nth_error refs' j = Some r' /\ ref_carries r' e.
Proof. exact time_travel_any. Qed.
Print Assumptions C11_time_travel_any.

Theorem C11_find_visible_covers : forall cis cl cid at_ eps x,
  0 <= eps -> vidx_ok cl -> mono cis cl ->
  find_visible cis cl cid at_ eps = Some x ->
  forall i c, nth_error cl i = Some c -> must_cover cis at_ eps c -> (i <= c_vidx x)%nat.
Proof. exact find_visible_covers. Qed.
Print Assumptions C11_find_visible_covers.

(* 17. the domain of theorem 14 as ONE boolean predicate, and its necessity: with a deleted version
       inside the window the closest-candidate statement is false (FindVisible keeps the previous
       version although a same-changeset candidate lies in the window). *)
Theorem C11_find_visible_spec_on_domain : forall cis cid at_ eps cl,
  (0 <=? eps) && stamps_monotone cis cl && forallb (ts_child cis) cl && window_visibleb cis at_ eps cl = true ->
  find_visible_spec cis cid at_ eps cl (find_visible cis cl cid at_ eps).
Proof. exact find_visible_spec_on_domain. Qed.
Print Assumptions C11_find_visible_spec_on_domain.

Theorem C11_find_visible_spec_outside_domain_refuted :
  (0 <=? d_eps) && stamps_monotone d_cis d_cl && forallb (ts_child d_cis) d_cl = true /\
  window_visibleb d_cis (d_t 0) d_eps d_cl = false /\
  option_map c_version (find_visible d_cis d_cl 7 (d_t 0) d_eps) = Some 1 /\
  ~ find_visible_spec d_cis 7 (d_t 0) d_eps d_cl (find_visible d_cis d_cl 7 (d_t 0) d_eps).
Proof. exact find_visible_spec_refuted_outside_domain. Qed.
Print Assumptions C11_find_visible_spec_outside_domain_refuted.

Example C11_domain_witness_inside :
  (0 <=? o_threshold g_opts) && stamps_monotone g_cis g_cl && forallb (ts_child g_cis) g_cl
  && window_visibleb g_cis (g_t 0) (o_threshold g_opts) g_cl = true.
Proof. vm_compute. reflexivity. Qed.

(* a MIXED history (C11/Any.v): node 100 has v1, v2 without and v3, v4 with commit times; the way's
   first version has no commit time, its second has one.  Hypotheses of theorem 16 hold; the way
   selects v2, its updates are [v3]; travelling to a time after v3 gives v3 = later(v2, current_at) *)
Example C11_hyps_mixed :
  vidx_ok x_cl /\ versions_mono x_cl /\ x_cl <> [] /\ stamps_monotone x_cis x_cl = true /\
  (forall ck, In ck x_cl -> stamp_consistent x_cis ck = true) /\ 0 <= o_threshold x_opts /\ hist_ok x_hist /\
  map (ts_child x_cis) x_cl = [true; true; false; false] /\
  option_map c_version (find_visible x_cis x_cl 7 (x_t (-3600)) (o_threshold x_opts)) = Some 2.
Proof.
  split; [apply to_child_list_vidx_ok|]. split; [apply to_child_list_versions_mono|].
  split; [vm_compute; discriminate|]. split; [vm_compute; reflexivity|].
  split; [apply forallb_forall; vm_compute; reflexivity|].
  split; [vm_compute; discriminate|]. split; [exact x_hist_ok|].
  split; vm_compute; reflexivity.
Qed.

Example C11_instance_mixed :
  exists ps' us us2,
    compute_with x_cis x_opts x_parents x_hist x_entries (isort less) = Ok (ps', [us; us2]) /\
    map (map r_version) (map p_refs ps') = [[2]; [3]] /\ map u_version us = [3] /\ map u_version us2 = [4] /\
    (exists par' refs pend, nth_error ps' 0 = Some par' /\
       apply_updates_up_to false (x_t 6000) (p_refs par') us = ApplyOk refs pend /\ map r_version refs = [3]).
Proof.
  eexists. eexists. eexists. split; [vm_compute; reflexivity|]. split; [vm_compute; reflexivity|].
  split; [vm_compute; reflexivity|]. split; [vm_compute; reflexivity|].
  eexists. eexists. eexists. split; [reflexivity|]. split; vm_compute; reflexivity.
Qed.

(* 18. what FindVisible can select in EVERY mixture of versions with and without commit times
       (upper bound; theorem C11_find_visible_covers is the lower bound): the selected version is
       visible, stamped no later than at + eps, and if it is stamped after [at] it has no commit
       time and belongs to the parent's changeset. *)
Theorem C11_find_visible_selectable : forall cis cl cid at_ eps x,
  0 <= eps -> find_visible cis cl cid at_ eps = Some x ->
  c_visible x = true /\ stamp cis x <= at_ + eps /\
  (at_ < stamp cis x -> ts_child cis x = true /\ c_changeset x = cid).
Proof. exact find_visible_selectable. Qed.
Print Assumptions C11_find_visible_selectable.

(* 18'. ground truth for the commonest mixed shape: when every version WITHOUT commit time is
        stamped before the window (element created before CommitInfoStart, edited after it, seen
        from a later parent version), FindVisible = the version current at [at] if visible —
        generalises theorem 1 (no version without commit time at all). *)
Theorem C11_find_visible_old_before_window : forall cis cid at_ eps cl,
  0 <= eps -> stamps_monotone cis cl = true ->
  (forall c, In c cl -> ts_child cis c = true -> stamp cis c < at_ - eps) ->
  find_visible cis cl cid at_ eps = visible_only (current_at cis cl at_).
Proof. exact find_visible_old_before_window. Qed.
Print Assumptions C11_find_visible_old_before_window.

(* 19. updates_exact in EVERY regime and mixture: the update list of parent p holds, at index j,
       exactly the visible versions later than the selected one and inside [bound_gen]: no bound for
       the last parent version; otherwise, with nx the version selected for the NEXT parent version
       (what that version's reference carries, theorem 2'): the versions before nx, and nx itself
       iff it is stamped before the next parent's bound (its commit time, or its timestamp less
       the threshold); when nothing is selected for the next parent version: the versions stamped
       before that bound.  In the commit regime [bound_gen] is [bound_ok] of theorem 8. *)
Theorem C11_updates_exact_generic :
  forall cis o ps hist entries sortf ps' results p par j r cl s,
  valid_order o ps entries -> sort_spec less sortf ->
  compute_with cis o ps hist entries sortf = Ok (ps', results) ->
  nth_error ps p = Some par -> p_visible par = true ->
  nth_error (p_refs par) j = Some r -> filtered_out (o_filter o) r = false ->
  hist (r_id r) = HFound cl -> cl <> [] ->
  vidx_ok cl -> stamps_monotone cis cl = true ->
  find_visible cis cl (p_changeset par) (pstamp cis par) (o_threshold o) = Some s ->
  exists us,
    nth_error results p = Some us /\
    forall u, (In u us /\ u_index u = j) <->
      exists ck, In ck cl /\ c_visible ck = true /\ u = child_update cis ck j /\
                 (c_vidx s < c_vidx ck)%nat /\ bound_gen cis o cl (nth_error ps (S p)) ck.
Proof. exact updates_exact_generic. Qed.
Print Assumptions C11_updates_exact_generic.

(* 19'. the two-sided bracket in terms of stamps only: a visible later version stamped before the
        next parent's bound IS an update (theorem 13''), and every update is stamped no later than
        the end of the next parent's window *)
Theorem C11_bound_gen_upper : forall cis o cl n ck i,
  0 <= o_threshold o -> vidx_ok cl -> stamps_monotone cis cl = true ->
  nth_error cl i = Some ck -> bound_gen cis o cl (Some n) ck ->
  stamp cis ck <= pstamp cis n + o_threshold o.
Proof. exact bound_gen_upper. Qed.
Print Assumptions C11_bound_gen_upper.

(* 20. theorem 13 without any visibility side condition when IgnoreInconsistency is off (pure
       regimes).  In theorems 9, 13 and 16 the side condition is only that the version CURRENT AT t,
       if later than the selected one, is visible: deleted versions in between are skipped by
       Compute (with IgnoreInconsistency) and do not matter. *)
Theorem C11_time_travel_generic_strict :
  forall cis o ps hist entries sortf ps' results p par j r cl s,
  hist_ok hist -> valid_order o ps entries -> sort_spec less sortf ->
  compute_with cis o ps hist entries sortf = Ok (ps', results) ->
  nth_error ps p = Some par -> p_visible par = true ->
  nth_error (p_refs par) j = Some r -> filtered_out (o_filter o) r = false ->
  hist (r_id r) = HFound cl -> cl <> [] ->
  vidx_ok cl -> stamps_monotone cis cl = true -> versions_mono cl ->
  (forall ck, In ck cl -> stamp_consistent cis ck = true) ->
  0 <= o_threshold o -> regime_ok cis cl (nth_error ps (S p)) ->
  find_visible cis cl (p_changeset par) (pstamp cis par) (o_threshold o) = Some s ->
  forall is_rel t par' us refs' pend,
  o_ignore_incons o = false ->
  before_bound cis o (nth_error ps (S p)) t ->
  nth_error ps' p = Some par' -> nth_error results p = Some us ->
  apply_updates_up_to is_rel t (p_refs par') us = ApplyOk refs' pend ->
  exists e r', later (Some s) (current_at cis cl t) = Some e /\ nth_error refs' j = Some r' /\ ref_carries r' e.
Proof. exact time_travel_generic_strict. Qed.
Print Assumptions C11_time_travel_generic_strict.

(* ---- non-vacuity with SEVERAL parent versions (C11/Witness2.v, commit regime): P1 references
   node 100 twice and node 101, P2 is committed in the same instant as v3 of node 100, P3 is a
   deleted version, P4 follows.  For p = 0 the next parent exists, so np_commit, bound_ok,
   in_window_commit and before_bound are not trivially true. ---- *)
Example C11_hyps_two_parents :
  vidx_ok t_cl100 /\ versions_mono t_cl100 /\ t_cl100 <> [] /\ stamps_monotone t_cis t_cl100 = true /\
  forallb (commit_child t_cis) t_cl100 = true /\
  (forall ck, In ck t_cl100 -> stamp_consistent t_cis ck = true) /\
  (exists par n, nth_error t_parents 0 = Some par /\ nth_error t_parents 1 = Some n /\
                 commit_parent t_cis par = true /\ np_commit t_cis (nth_error t_parents 1) /\
                 in_window_commit t_cis t_parents 0 par (t_t 3) /\
                 before_bound t_cis t_opts (nth_error t_parents 1) (t_t 3) /\
                 regime_ok t_cis t_cl100 (nth_error t_parents 1) /\
                 option_map c_version (visible_only (current_at t_cis t_cl100 (pstamp t_cis par))) = Some 1 /\
                 (* v3 is committed in the same instant as P2: inside the window's closure, NOT an update of P1 *)
                 option_map c_version (current_at t_cis t_cl100 (pstamp t_cis n)) = Some 3) /\
  valid_order t_opts t_parents t_entries.
Proof.
  split; [apply to_child_list_vidx_ok|]. split; [apply to_child_list_versions_mono|].
  split; [vm_compute; discriminate|]. split; [vm_compute; reflexivity|]. split; [vm_compute; reflexivity|].
  split; [apply forallb_forall; vm_compute; reflexivity|]. split; [|apply Permutation.Permutation_refl].
  eexists. eexists. split; [reflexivity|]. split; [reflexivity|].
  split; [vm_compute; reflexivity|]. split; [vm_compute; reflexivity|].
  split; [split; vm_compute; [discriminate|reflexivity]|].
  split; [vm_compute; reflexivity|].
  split; [left; split; vm_compute; reflexivity|].
  split; vm_compute; reflexivity.
Qed.

(* the result: repeated child annotated at both indices; P1's updates are v2 of node 100 at both
   indices and v2 of node 101, but NOT v3 (committed with P2); P2 carries v3 and gets v4 only (P3,
   although deleted, bounds it); the deleted P3 is untouched with no updates; P4 carries v5 *)
Example C11_instance_two_parents :
  exists ps' us,
    compute_with t_cis t_opts t_parents t_hist t_entries (isort less) = Ok (ps', us) /\
    map (fun p => map r_version (p_refs p)) ps' = [[1; 1; 1]; [3]; [0]; [5]] /\
    map (map (fun u => (u_index u, u_version u))) us
      = [[(0%nat, 2); (1%nat, 2); (2%nat, 2)]; [(0%nat, 4)]; []; [(0%nat, 6)]] /\
    (exists par' us0 refs pend, nth_error ps' 0 = Some par' /\ nth_error us 0 = Some us0 /\
       apply_updates_up_to false (t_t 3) (p_refs par') us0 = ApplyOk refs pend /\
       map r_version refs = [2; 2; 2] /\
       option_map c_version (current_at t_cis t_cl100 (t_t 3)) = Some 2).
Proof.
  eexists. eexists. split; [vm_compute; reflexivity|]. split; [vm_compute; reflexivity|].
  split; [vm_compute; reflexivity|].
  eexists. eexists. eexists. eexists. split; [reflexivity|]. split; [reflexivity|].
  split; [vm_compute; reflexivity|]. split; vm_compute; reflexivity.
Qed.

(* with a ChildFilter accepting node 100 only: the already annotated reference to node 101 is left
   alone and gets no updates (theorems above are stated for unfiltered references) *)
Example C11_instance_filter :
  filtered_out (o_filter t_opts_f) (mkRef 101 1 21 7 7 0) = true /\
  filtered_out (o_filter t_opts_f) (mkRef 100 0 0 0 0 0) = false /\
  exists ps' us,
    compute_with t_cis t_opts_f t_parents_f t_hist t_entries_f (isort less) = Ok (ps', us) /\
    map (fun p => map (fun r => (r_version r, r_changeset r)) (p_refs p)) ps' = [[(1, 11); (1, 11); (1, 21)]; [(3, 13)]] /\
    map (map (fun u => (u_index u, u_version u))) us = [[(0%nat, 2); (1%nat, 2)]; [(0%nat, 4); (0%nat, 5); (0%nat, 6)]].
Proof.
  split; [vm_compute; reflexivity|]. split; [vm_compute; reflexivity|].
  eexists. eexists. split; [vm_compute; reflexivity|]. split; vm_compute; reflexivity.
Qed.

(* delete -> undelete between parent versions under IgnoreInconsistency: the deleted v2 is skipped,
   the update list is [v3]; at a time after v3 the side condition of theorems 9/13/16 holds (the
   version current at t, v3, is visible) and the reference carries v3 = current_at; at a time
   between v2 and v3 the version current at t is the deleted v2 and no claim is made *)
Example C11_instance_delete_undelete :
  exists ps' us,
    compute_with t_cis u_opts u_parents u_hist u_entries (isort less) = Ok (ps', [us]) /\
    map u_version us = [3] /\
    (forall e, current_at t_cis u_cl (t_t 4) = Some e -> c_visible e = true) /\
    option_map c_version (current_at t_cis u_cl (t_t 4)) = Some 3 /\
    (exists refs pend, apply_updates_up_to false (t_t 4) (flat_map p_refs ps') us = ApplyOk refs pend
                       /\ map r_version refs = [3]) /\
    option_map c_visible (current_at t_cis u_cl (t_t 2)) = Some false.
Proof.
  eexists. eexists. split; [vm_compute; reflexivity|]. split; [vm_compute; reflexivity|].
  split; [intros e He; vm_compute in He; inversion He; reflexivity|].
  split; [vm_compute; reflexivity|].
  split; [eexists; eexists; split; vm_compute; reflexivity|vm_compute; reflexivity].
Qed.

(* 15. tie by translation: the decision functions regenerated from /repo's Go source on every run
       (coq/gen/GenAnnotate.v, translator/cmd/annotate) ARE the hand model the theorems above are
       about: timeThreshold, timeThresholdParent, ChildList.FindVisible, ChildList.VersionBefore,
       nextVersionIndex (VersionIndex as Z), updateTimestamp, Child.Update (Index 0),
       updatesSortIndex.Less, parentWay.SetChild and parentRelation.SetChild (the glue for way nodes
       and for relation members of all three kinds), the rule deciding which references are handled
       (Refs()'s annotated flag + mapChildLocs' skip condition = [filtered_out]), the default
       threshold of options.go (the harness omits Threshold when it is 30 minutes), and the time.Date literal of
       osm.CommitInfoStart. *)
Theorem C11_generated_code_is_model :
  (forall a b, gen_less_index a b = less a b) /\
  (forall cis ts com, gen_update_timestamp cis ts com = update_timestamp cis ts com) /\
  (forall cis c, gen_child_update cis c = child_update cis c 0%nat) /\
  (forall cis c esp, gen_time_threshold cis c esp = time_threshold cis c esp) /\
  (forall cis p esp, gen_time_threshold_parent cis p esp = time_threshold_parent cis p esp) /\
  (forall cis cl cid at_ eps, gen_find_visible cis cl cid at_ eps = find_visible cis cl cid at_ eps) /\
  (forall cis cl end_, gen_version_before cis cl end_ = version_before cis cl end_) /\
  (forall cis current cl np o,
     gen_next_version_index_at cis current cl np o = res_map Z.of_nat (next_version_index cis current cl np o)) /\
  (forall c r, gen_way_set_child c r = set_ref c r /\ gen_relation_set_child c r = set_ref c r) /\
  (forall filter r, gen_skip_ref (gen_way_annotated r) filter (r_id r) = filtered_out filter r /\
                    gen_skip_ref (gen_relation_annotated r) filter (r_id r) = filtered_out filter r) /\
  gen_default_threshold = 30 * 60 * 1000000000 /\
  unix_nanos gen_commit_info_start_args = Some 1347442203000000000.
Proof. exact generated_code_is_model. Qed.
Print Assumptions C11_generated_code_is_model.

(* 20'. The two list functions read elements only inside their loops in the present source; if the
       source reads one by index outside a loop (a counting loop followed by cl[n-1]), the translator
       emits the function with that read allowed to fail, and this theorem says it never does. *)
Theorem C11_generated_reads_in_range :
  (forall cis cl end_, gen_version_before_chk cis cl end_ = Ok (version_before cis cl end_)) /\
  (forall cis cl cid at_ eps, gen_find_visible_chk cis cl cid at_ eps = Ok (find_visible cis cl cid at_ eps)).
Proof. exact generated_reads_in_range. Qed.
Print Assumptions C11_generated_reads_in_range.

(* ---- non-vacuity: the witness history of C12/Proofs.v (node 100: v1 before the way, v2 and v3
   in the same second after it; commit-time regime) ---- *)
Example C11_hyps_commit_regime :
  forallb (commit_child w_cis) (to_child_list 100 w_versions) = true /\
  stamps_monotone w_cis (to_child_list 100 w_versions) = true /\
  valid_order w_opts w_parents w_entries.
Proof. split; [vm_compute; reflexivity|split; [vm_compute; reflexivity|exact w_valid_order]]. Qed.

(* the remaining hypotheses of theorems 8-9' hold for it: shape, regime-consistent stamps, commit
   regime of the parent, a selected version, and a time inside the window *)
Example C11_hyps_time_travel :
  let cl := to_child_list 100 w_versions in
  vidx_ok cl /\ versions_mono cl /\ cl <> [] /\
  (forall ck, In ck cl -> stamp_consistent w_cis ck = true) /\
  (exists par, nth_error w_parents 0 = Some par /\ commit_parent w_cis par = true /\
               np_commit w_cis (nth_error w_parents 1) /\
               (exists s, visible_only (current_at w_cis cl (pstamp w_cis par)) = Some s) /\
               in_window_commit w_cis w_parents 0 par (w_t 9000)) /\
  o_ignore_incons w_opts = false /\ hist_ok w_hist.
Proof.
  cbv zeta. split; [apply to_child_list_vidx_ok|]. split; [apply to_child_list_versions_mono|].
  split; [vm_compute; discriminate|]. split.
  - apply forallb_forall. vm_compute. reflexivity.
  - split; [|split; [reflexivity|exact w_hist_ok]].
    eexists. split; [reflexivity|]. split; [vm_compute; reflexivity|]. split; [exact I|].
    split; [eexists; vm_compute; reflexivity|]. split; [vm_compute; discriminate|exact I].
Qed.

(* the annotated way carries v1 (current at the way's commit), the updates are v2 then v3, and
   travelling to a time after both leaves v3 = current_at, travelling to the way's own commit
   time leaves v1 *)
Example C11_instance :
  exists ps' us,
    compute_with w_cis w_opts w_parents w_hist w_entries (isort less) = Ok (ps', [us]) /\
    map r_version (flat_map p_refs ps') = [1] /\
    option_map c_version (current_at w_cis (to_child_list 100 w_versions) (w_t 3600)) = Some 1 /\
    map u_version us = [2; 3] /\
    (exists refs pend, apply_updates_up_to false (w_t 9000) (flat_map p_refs ps') us = ApplyOk refs pend
                       /\ map r_version refs = [3]) /\
    option_map c_version (current_at w_cis (to_child_list 100 w_versions) (w_t 9000)) = Some 3 /\
    (exists refs pend, apply_updates_up_to false (w_t 3600) (flat_map p_refs ps') us = ApplyOk refs pend
                       /\ map r_version refs = [1] /\ length pend = 2%nat).
Proof.
  eexists. eexists. split; [vm_compute; reflexivity|].
  split; [vm_compute; reflexivity|]. split; [vm_compute; reflexivity|]. split; [vm_compute; reflexivity|].
  split; [eexists; eexists; split; vm_compute; reflexivity|].
  split; [vm_compute; reflexivity|].
  eexists. eexists. split; [vm_compute; reflexivity|split; vm_compute; reflexivity].
Qed.

(* timestamp regime with forward grouping (witness of C11/Generic.v): the hypotheses of theorem 13
   hold, FindVisible selects v2 although it is stamped AFTER the way (same changeset, within the
   threshold), and travelling to the way's own time gives later(v2, current_at = v1) = v2, to a
   time after v3 gives v3 *)
Example C11_hyps_generic :
  vidx_ok g_cl /\ versions_mono g_cl /\ g_cl <> [] /\ stamps_monotone g_cis g_cl = true /\
  (forall ck, In ck g_cl -> stamp_consistent g_cis ck = true) /\
  regime_ok g_cis g_cl (nth_error g_parents 1) /\ 0 <= o_threshold g_opts /\ hist_ok g_hist /\
  option_map c_version (find_visible g_cis g_cl 7 (g_t 0) (o_threshold g_opts)) = Some 2 /\
  option_map c_version (current_at g_cis g_cl (g_t 0)) = Some 1.
Proof.
  split; [apply to_child_list_vidx_ok|]. split; [apply to_child_list_versions_mono|].
  split; [vm_compute; discriminate|]. split; [vm_compute; reflexivity|].
  split; [apply forallb_forall; vm_compute; reflexivity|].
  split; [right; split; [vm_compute; reflexivity|exact I]|].
  split; [vm_compute; discriminate|]. split; [exact g_hist_ok|].
  split; vm_compute; reflexivity.
Qed.

Example C11_instance_generic :
  exists ps' us,
    compute_with g_cis g_opts g_parents g_hist g_entries (isort less) = Ok (ps', [us]) /\
    map r_version (flat_map p_refs ps') = [2] /\ map u_version us = [3] /\
    (exists refs pend, apply_updates_up_to false (g_t 0) (flat_map p_refs ps') us = ApplyOk refs pend
                       /\ map r_version refs = [2]) /\
    (exists refs pend, apply_updates_up_to false (g_t 8000) (flat_map p_refs ps') us = ApplyOk refs pend
                       /\ map r_version refs = [3]).
Proof.
  eexists. eexists. split; [vm_compute; reflexivity|]. split; [vm_compute; reflexivity|].
  split; [vm_compute; reflexivity|].
  split; eexists; eexists; split; vm_compute; reflexivity.
Qed.

(* error instances: the same way referencing a node without history / with only a deleted version *)
Example C11_instance_missing :
  compute_with w_cis w_opts w_parents (fun _ => HNotFound) w_entries (isort less) = Err (ENoHistory 100).
Proof. vm_compute. reflexivity. Qed.

Example C11_instance_no_visible :
  exists ts,
  compute_with w_cis w_opts w_parents
    (fun _ => HFound (to_child_list 100 [mkHver 1 11 (w_t 0) (w_t 0) 1 0 false false]))
    w_entries (isort less) = Err (ENoVisibleChild 100 ts).
Proof. eexists. vm_compute. reflexivity. Qed.
