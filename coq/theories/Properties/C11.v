(* Properties/C11.v — Annotation reconstructs, for any time, the child versions that were current.

   ONLY statements closed by [exact], Print Assumptions, and non-vacuity Examples.
   Model: Annotate/Model.v (compute_with = core.Compute with explicit map iteration order
   [entries] and sort.Sort behaviour [sortf]; apply_updates_up_to = ApplyUpdatesUpTo).
   Ground truth: C11/Spec.v — [stamp] (commit time when known, else timestamp), [current_at hist T]
   (the last version in version order whose stamp is <= T).
   [valid_order o ps entries]: entries is any permutation of the child-location map.
   Every theorem holds for every value of osm.CommitInfoStart ([cis]), every threshold, every
   filter, every iteration order. *)
From Coq Require Import ZArith List Bool Permutation Sorted.
From Verif Require Import Annotate.Model Annotate.SortProofs Annotate.Plans Annotate.Determinism
  C11.Spec C11.Proofs C12.Proofs.
Import ListNotations.
Open Scope Z_scope.

(* 1. commit-time regime (commit times of the child known and non-decreasing in version):
      FindVisible returns exactly the version current at [at_] if it is visible, else nothing —
      for every changeset id and every threshold. *)
Theorem C11_find_visible_commit : forall cis cid at_ eps cl,
  forallb (commit_child cis) cl = true -> stamps_monotone cis cl = true ->
  find_visible cis cl cid at_ eps = visible_only (current_at cis cl at_).
Proof. exact find_visible_commit. Qed.
Print Assumptions C11_find_visible_commit.

(* 2. "each child reference carries the version, changeset and location of the child that was
      current when that parent version was committed" (commit-time regime; [set_ref c r] writes
      version, changeset, lat, lon of c).  When that version is deleted the reference is left
      alone — which can only happen with IgnoreInconsistency, see theorem 7. *)
Theorem C11_annotate_child_current :
  forall cis o ps hist entries sortf ps' results p par j r cl,
  valid_order o ps entries ->
  compute_with cis o ps hist entries sortf = Ok (ps', results) ->
  nth_error ps p = Some par -> p_visible par = true ->
  nth_error (p_refs par) j = Some r -> filtered_out (o_filter o) r = false ->
  hist (r_id r) = HFound cl -> cl <> [] ->
  forallb (commit_child cis) cl = true -> stamps_monotone cis cl = true ->
  exists par' r',
    nth_error ps' p = Some par' /\ nth_error (p_refs par') j = Some r' /\
    r' = match visible_only (current_at cis cl (pstamp cis par)) with
         | Some c => set_ref c r
         | None => r
         end.
Proof. exact annotate_child_current. Qed.
Print Assumptions C11_annotate_child_current.

(* 2'. every regime: the reference carries exactly what FindVisible selects for this parent
       (closest visible version in the threshold window, later ones only from the parent's
       changeset, else the previous one if visible) *)
Theorem C11_annotate_child_selected :
  forall cis o ps hist entries sortf ps' results p par j r cl,
  valid_order o ps entries ->
  compute_with cis o ps hist entries sortf = Ok (ps', results) ->
  nth_error ps p = Some par -> p_visible par = true ->
  nth_error (p_refs par) j = Some r -> filtered_out (o_filter o) r = false ->
  hist (r_id r) = HFound cl -> cl <> [] ->
  exists par' r',
    nth_error ps' p = Some par' /\ nth_error (p_refs par') j = Some r' /\
    r' = match find_visible cis cl (p_changeset par) (pstamp cis par) (o_threshold o) with
         | Some c => set_ref c r
         | None => r
         end.
Proof. exact annotate_child_selected. Qed.
Print Assumptions C11_annotate_child_selected.

(* 3. "Deleted parent versions receive no annotations" (and no updates) *)
Theorem C11_deleted_parent_untouched :
  forall cis o ps hist entries sortf ps' results p par,
  sort_spec less sortf ->
  compute_with cis o ps hist entries sortf = Ok (ps', results) ->
  nth_error ps p = Some par -> p_visible par = false ->
  nth_error ps' p = Some par /\ nth_error results p = Some [].
Proof. exact deleted_parent_untouched. Qed.
Print Assumptions C11_deleted_parent_untouched.

(* 4. missing child history (not found, or found but empty — repaired by /repo 43ff9c3): every run
      fails unless IgnoreMissingChildren ... *)
Theorem C11_missing_history_error :
  forall cis o ps hist entries sortf p par j r,
  valid_order o ps entries ->
  nth_error ps p = Some par -> nth_error (p_refs par) j = Some r ->
  filtered_out (o_filter o) r = false -> missing_hist (hist (r_id r)) = true -> o_ignore_missing o = false ->
  exists e, compute_with cis o ps hist entries sortf = Err e.
Proof. exact missing_history_error. Qed.
Print Assumptions C11_missing_history_error.

(* 5. ... and the typed NoHistoryError is reported only for such a child, option off *)
Theorem C11_no_history_error_typed :
  forall cis o ps hist entries sortf fid,
  compute_with cis o ps hist entries sortf = Err (ENoHistory fid) ->
  o_ignore_missing o = false /\ missing_hist (hist fid) = true /\ exists locs, In (fid, locs) entries.
Proof. exact no_history_error_typed. Qed.
Print Assumptions C11_no_history_error_typed.

(* 6. no visible child at a visible parent: every run fails unless IgnoreInconsistency ... *)
Theorem C11_no_visible_child_error :
  forall cis o ps hist entries sortf p par j r cl,
  valid_order o ps entries ->
  nth_error ps p = Some par -> p_visible par = true -> nth_error (p_refs par) j = Some r ->
  filtered_out (o_filter o) r = false -> hist (r_id r) = HFound cl -> cl <> [] ->
  find_visible cis cl (p_changeset par) (pstamp cis par) (o_threshold o) = None ->
  o_ignore_incons o = false ->
  exists e, compute_with cis o ps hist entries sortf = Err e.
Proof. exact no_visible_child_error. Qed.
Print Assumptions C11_no_visible_child_error.

(* 7. ... and the typed NoVisibleChildError names a child and the time of a visible parent at
      which FindVisible selects nothing (in the commit regime: the current version is deleted or
      does not exist yet, by theorem 1), option off *)
Theorem C11_no_visible_child_error_typed :
  forall cis o ps hist entries sortf fid ts,
  compute_with cis o ps hist entries sortf = Err (ENoVisibleChild fid ts) ->
  o_ignore_incons o = false /\
  exists locs cl p par,
    In (fid, locs) entries /\ hist fid = HFound cl /\ nth_error ps p = Some par /\
    p_visible par = true /\ ts = pstamp cis par /\
    find_visible cis cl (p_changeset par) (pstamp cis par) (o_threshold o) = None.
Proof. exact no_visible_child_error_typed. Qed.
Print Assumptions C11_no_visible_child_error_typed.

(* 8. updates_exact — PARTIAL.
   Full statement (commit-time regime), not proved:
     the update list of parent p contains, for each reference index j (unfiltered, history cl,
     selected version s), exactly one update child_update ck j for every version ck of cl with
     c_vidx s < c_vidx ck that is committed no later than the version current at the next parent
     version, that version itself only if it was committed earlier than
     (commit time of the next parent - threshold); all later versions when p is the last version;
     and nothing else.
   Proved: the loop of Compute emits exactly the visible versions at positions
   start .. nextVersion-1 of the history, one update per location, in version order, nothing else
   (closed form), and without IgnoreInconsistency all those versions are visible.
   Missing: the arithmetic identification of [start] and [nextVersion] (next_version_index) with
   the two current_at bounds above. *)
Theorem C11_updates_exact_partial : forall cis o fid cl locs n k acc ups,
  updates_loop cis o fid cl locs k n acc = Ok ups ->
  ups = acc ++ flat_map (version_updates cis locs) (firstn n (skipn k cl)) /\
  (o_ignore_incons o = false -> forall ck, In ck (firstn n (skipn k cl)) -> c_visible ck = true).
Proof.
  intros cis o fid cl locs n k acc ups H. split.
  - exact (updates_loop_exact cis o fid cl locs n k acc ups H).
  - intros Hi. exact (updates_loop_all_visible cis o fid cl locs n k acc ups Hi H).
Qed.
Print Assumptions C11_updates_exact_partial.

(* 9. time_travel — PARTIAL.
   Full statement (commit-time regime), not proved:
     forall t, pstamp p <= t -> (next parent np exists -> t < pstamp np - threshold) ->
     apply_updates_up_to t (annotated refs of p) (updates of p) = ApplyOk refs' _ and for every
     unfiltered index j with history cl (stamps monotone, versions between visible):
     refs'[j] carries current_at cl t.
   Generic regime (time_travel_generic), not proved: refs'[j] carries
     later (selected version) (current_at cl t).
   Both are checked on the real implementation on every run by judgement 2 of C11/Check.v
   (the time-travel oracle), for ~4000 (history, parent, t) triples per quick run.
   Proved here, for all update lists and all t:
   (a) ApplyUpdatesUpTo(t) succeeds when indices are in range, leaves exactly the updates later
       than t pending (in order), and overwrites each reference by the applicable updates of its
       index in list order;
   (b) on a list ordered by (index, timestamp, version) — which C12 proves for every annotation
       result — the reference ends up carrying the applicable update that is greatest for
       (timestamp, version): the newest version stamped <= t; with no applicable update it is
       unchanged.
   Missing: that among the updates of index j the greatest one stamped <= t is current_at cl t
   (needs theorem 8's missing part and monotone stamps). *)
Theorem C11_time_travel_partial :
  (forall is_rel t us refs,
     (forall u, In u us -> u_timestamp u >? t = false -> (u_index u < length refs)%nat) ->
     exists refs',
       apply_updates_up_to is_rel t refs us = ApplyOk refs' (filter (fun u => u_timestamp u >? t) us) /\
       length refs' = length refs /\
       forall j r, nth_error refs j = Some r -> nth_error refs' j = Some (applied_ref is_rel t us j r)) /\
  (forall is_rel t j us,
     StronglySorted itv_le us -> key_functional us ->
     forall r u, In u us -> applicable t j u = true ->
     (forall u', In u' us -> applicable t j u' = true -> itv_le u' u) ->
     let r' := applied_ref is_rel t us j r in
     r_version r' = u_version u /\ r_changeset r' = u_changeset u /\ r_lat r' = u_lat u /\ r_lon r' = u_lon u) /\
  (forall is_rel t j us r,
     (forall u, In u us -> applicable t j u = false) -> applied_ref is_rel t us j r = r).
Proof. split; [exact apply_exact|split; [exact applied_sorted_max|exact applied_none]]. Qed.
Print Assumptions C11_time_travel_partial.

(* ---- non-vacuity: the witness history of C12/Proofs.v (node 100: v1 before the way, v2 and v3
   in the same second after it; commit-time regime) ---- *)
Example C11_hyps_commit_regime :
  forallb (commit_child w_cis) (to_child_list 100 w_versions) = true /\
  stamps_monotone w_cis (to_child_list 100 w_versions) = true /\
  valid_order w_opts w_parents w_entries.
Proof. split; [vm_compute; reflexivity|split; [vm_compute; reflexivity|exact w_valid_order]]. Qed.

(* the annotated way carries v1 (current at the way's commit), the updates are v2 then v3, and
   travelling to a time after both leaves v3 = current_at, travelling to the way's own commit
   time leaves v1 *)
Example C11_instance :
  exists ps' us,
    compute_with w_cis w_opts w_parents w_hist w_entries (isort less) = Ok (ps', [us]) /\
    map r_version (flat_map p_refs ps') = [1] /\
    option_map c_version (current_at w_cis (to_child_list 100 w_versions) (w_t 3600)) = Some 1 /\
    map u_version us = [2; 3] /\
    (exists refs pend, apply_updates_up_to false (w_t 9000) (flat_map p_refs ps') us = ApplyOk refs pend
                       /\ map r_version refs = [3]) /\
    option_map c_version (current_at w_cis (to_child_list 100 w_versions) (w_t 9000)) = Some 3 /\
    (exists refs pend, apply_updates_up_to false (w_t 3600) (flat_map p_refs ps') us = ApplyOk refs pend
                       /\ map r_version refs = [1] /\ length pend = 2%nat).
Proof.
  eexists. eexists. split; [vm_compute; reflexivity|].
  split; [vm_compute; reflexivity|]. split; [vm_compute; reflexivity|]. split; [vm_compute; reflexivity|].
  split; [eexists; eexists; split; vm_compute; reflexivity|].
  split; [vm_compute; reflexivity|].
  eexists. eexists. split; [vm_compute; reflexivity|split; vm_compute; reflexivity].
Qed.

(* error instances: the same way referencing a node without history / with only a deleted version *)
Example C11_instance_missing :
  compute_with w_cis w_opts w_parents (fun _ => HNotFound) w_entries (isort less) = Err (ENoHistory 100).
Proof. vm_compute. reflexivity. Qed.

Example C11_instance_no_visible :
  exists ts,
  compute_with w_cis w_opts w_parents
    (fun _ => HFound (to_child_list 100 [mkHver 1 11 (w_t 0) (w_t 0) 1 0 false false]))
    w_entries (isort less) = Err (ENoVisibleChild 100 ts).
Proof. eexists. vm_compute. reflexivity. Qed.
