(* Properties/C18.v — placeholder, filled once Proofs.v exists *)
From Verif Require Import C18.Model C18.Spec.
