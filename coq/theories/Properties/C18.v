(* Properties/C18.v — Area classification of ways follows the published polygon-features rules.

   ONLY statements, each closed by [exact] of a lemma of C18/{StrOrder,Proofs,GenOk,Main}.v,
   Print Assumptions, and non-vacuity Examples.

   Objects: Model.way_polygon / relation_polygon / search_strings / init_table model
   /repo/polygon.go and Tags.Find statement by statement (C18/Model.v).
   Model.RT is init_table applied to the table that translator/cmd/polygon re-reads from the
   polygonJSON literal of /repo/polygon.go on every run (VerifGen.GenPolygon).
   Spec.SpecTable is an independent hand copy of the published table; Spec.spec_polygon is the
   declarative rule over the tag SET.  All statements are for arbitrary strings, arbitrary
   node-id lists and arbitrary tag lists; nothing is bounded.

   Duplicate keys.  A tag SET has one value per key (hypothesis NoDup (keys ts)).  For tag
   LISTS with repeated keys Go's Tags.Find returns the first match; the theorems say so
   explicitly: the answer is the specification's answer for the list with later duplicates
   removed (C18_way_polygon_any_tag_list), and an Example shows that order does matter then.
   Empty values.  The literal rule (published_polygon) treats a listed key with an empty value as
   present; the code cannot (Find returns "" for "not found").  This is NOT hidden in the spec:
   C18_way_polygon_published holds outside the class, C18_empty_value_refuted inside it (known
   finding); C18_way_polygon_spec says what the code does everywhere. *)
From Coq Require Import String List Bool Arith ZArith Permutation.
From Verif Require Import C18.Model C18.Spec C18.Equiv C18.StrOrder C18.Proofs C18.GenOk C18.Main C18.Tags.
From Verif Require Import C18.GenSupport C18.GenOkCode.
From VerifGen Require Import GenPolygon GenPolygonCode.
Import ListNotations.
Open Scope string_scope.
Open Scope list_scope.

(* ---- 1. sort.SearchStrings: a correct lower-bound binary search on sorted lists ---- *)

(* for every sorted list and every string: terminates within fuel [length a], never indexes
   out of range, and returns k = the number of elements < x, which are exactly those before k *)
Theorem C18_search_strings_lower_bound : forall (a : list string) (x : string),
  sortedb a = true ->
  exists k, search_strings a x = Val k /\ (k <= length a)%nat /\
    (forall p u, nth_error a p = Some u -> ((p < k)%nat <-> String.ltb u x = true)).
Proof. exact search_strings_lower_bound. Qed.
Print Assumptions C18_search_strings_lower_bound.

(* hence the code's test "index != len && a[index] == x" decides membership *)
Theorem C18_search_strings_finds : forall (a : list string) (x : string),
  sortedb a = true ->
  exists k, search_strings a x = Val k /\ (k <= length a)%nat /\
    (In x a <-> nth_error a k = Some x).
Proof. exact search_strings_finds. Qed.
Print Assumptions C18_search_strings_finds.

(* the order used is a total order on byte strings (what Go's < on strings is) *)
Theorem C18_string_order_total : forall a b c : string,
  String.leb a a = true /\
  (String.leb a b = true -> String.leb b c = true -> String.leb a c = true) /\
  (String.leb a b = true -> String.leb b a = true -> a = b) /\
  (String.leb a b = true \/ String.leb b a = true) /\
  (String.ltb a b = false <-> String.leb b a = true).
Proof.
  intros a b c. split; [exact (leb_refl a)|]. split; [exact (leb_trans a b c)|].
  split; [exact (String.leb_antisym a b)|]. split; [exact (String.leb_total a b)|exact (ltb_false_leb a b)].
Qed.
Print Assumptions C18_string_order_total.

(* ---- 2. init(): the value lists are sorted, with the same members; the table is the published one ---- *)

Theorem C18_init_sorts_any_table : forall raw : list (string * string * list string),
  table_sortedb (init_table raw) = true.
Proof. exact init_table_sorted. Qed.
Print Assumptions C18_init_sorts_any_table.

Theorem C18_init_keeps_members : forall (k c : string) (vs : list string) (v : string),
  In v (rvalues (init_rule (k, c, vs))) <-> In v vs.
Proof. exact init_rule_values. Qed.

(* modelling sort.Sort by insertion sort loses nothing: a sorted permutation is unique *)
Theorem C18_sorted_permutation_unique : forall l1 l2 : list string,
  Permutation l1 l2 -> sortedb l1 = true -> sortedb l2 = true -> l1 = l2.
Proof. exact sorted_perm_unique. Qed.
Print Assumptions C18_sorted_permutation_unique.

(* The code's own init(): finite checks on the RUN-TIME DUMP of polyConditions, printed after
   init() by a program run against /repo at translation time (GenPolygon.poly_runtime_rules,
   Model.runtime_table).  These two are about /repo's init(), not about the model of it: without
   the sort loop, or with a partial one, the first fails. *)
Theorem C18_runtime_table_sorted : table_sortedb runtime_table = true.
Proof. exact gen_runtime_dump_sorted. Qed.
Print Assumptions C18_runtime_table_sorted.

(* what init() built is what the model of init builds from the source literal ... *)
Theorem C18_runtime_table_is_model_table : runtime_table = RT.
Proof. exact runtime_table_is_RT. Qed.
Print Assumptions C18_runtime_table_is_model_table.

(* ... and the MODEL's init sorts (an instance of C18_init_sorts_any_table: says nothing about
   /repo by itself) *)
Theorem C18_model_init_table_sorted : table_sortedb RT = true.
Proof. exact gen_table_sorted. Qed.

(* the table (source literal through the model's init = run-time dump) has the published rules *)
Theorem C18_runtime_table_same_sets_as_published :
  table_matchesb RT SpecTable = true /\ table_matchesb runtime_table SpecTable = true.
Proof. rewrite runtime_table_is_RT. split; exact gen_table_matches_published. Qed.
Print Assumptions C18_runtime_table_same_sets_as_published.

(* ---- 3. Way.Polygon = the published rules ---- *)

(* THE PROPERTY, literally (Spec.published_polygon: a listed key counts when it is PRESENT with a
   value other than "no"; an empty value is a value):

     FULL STATEMENT (false of the code, see C18_empty_value_refuted):
       forall nodes ts, NoDup (keys ts) ->
         exists b, way_polygon RT nodes ts = Val b /\ (b = true <-> published_polygon nodes ts).

   The code reads tags through Tags.Find, which returns "" both for an absent key and for a key
   present with an empty value, so a listed key with an empty value is skipped where the
   published rule (osmtogeojson) counts it.  KNOWN FINDING, class "empty-value-on-listed-key"
   (known_findings.d/C18.json).  Proved outside that class: *)
Theorem C18_way_polygon_published : forall (nodes : list Z) (ts : tags),
  NoDup (keys ts) -> no_empty_listed ts ->
  exists b, way_polygon RT nodes ts = Val b /\ (b = true <-> published_polygon nodes ts).
Proof. exact way_polygon_RT_published. Qed.
Print Assumptions C18_way_polygon_published.

(* ... and refuted inside it: building="" on a closed ring *)
Theorem C18_empty_value_refuted :
  exists nodes ts,
    NoDup (keys ts) /\ way_polygon RT nodes ts = Val false /\ published_polygon nodes ts.
Proof. exact empty_value_refuted. Qed.
Print Assumptions C18_empty_value_refuted.

(* the two readings agree exactly outside the class *)
Theorem C18_published_iff_spec : forall ts : tags,
  no_empty_listed ts -> (published_area SpecTable ts <-> spec_area SpecTable ts).
Proof. exact published_area_iff_spec_area. Qed.

Theorem C18_published_oracle_is_spec : forall (nodes : list Z) (ts : tags),
  nodupb (keys ts) = true ->
  (published_polygonb nodes (lookup_opt ts) = true <-> published_polygon nodes ts).
Proof. exact published_oracle_is_spec. Qed.

(* What the code does on ALL tag sets, the class included: the rules with an empty value read as
   absent (Spec.spec_polygon). *)
(* tag sets: for ALL node lists and ALL tag lists with distinct keys the function returns
   normally and says "area" exactly when the declarative specification does *)
Theorem C18_way_polygon_spec : forall (nodes : list Z) (ts : tags),
  NoDup (keys ts) ->
  exists b, way_polygon RT nodes ts = Val b /\ (b = true <-> spec_polygon nodes ts).
Proof. exact way_polygon_RT_spec. Qed.
Print Assumptions C18_way_polygon_spec.

(* all tag lists, no hypothesis: first match per key *)
Theorem C18_way_polygon_any_tag_list : forall (nodes : list Z) (ts : tags),
  exists b, way_polygon RT nodes ts = Val b /\
            (b = true <-> spec_polygon nodes (dedup_first ts)).
Proof. exact way_polygon_RT_spec_dups. Qed.
Print Assumptions C18_way_polygon_any_tag_list.

Theorem C18_dedup_first_is_a_tag_set : forall ts : tags,
  NoDup (keys (dedup_first ts)) /\ incl (dedup_first ts) ts /\
  (forall k, find k (dedup_first ts) = find k ts) /\
  (NoDup (keys ts) -> dedup_first ts = ts).
Proof.
  intros ts. split; [exact (dedup_first_nodup ts)|]. split; [exact (dedup_first_incl ts)|].
  split; [intros k; exact (find_dedup_first k ts)|exact (dedup_first_id ts)].
Qed.

(* the same, as a closed boolean formula over Find (this is what the harness oracle evaluates) *)
Theorem C18_way_polygon_bool : forall (nodes : list Z) (ts : tags),
  way_polygon RT nodes ts = Val (spec_polygonb nodes (fun k => find k ts)).
Proof. exact way_polygon_RT_bool. Qed.
Print Assumptions C18_way_polygon_bool.

Theorem C18_oracle_is_spec : forall (nodes : list Z) (ts : tags),
  nodupb (keys ts) = true ->
  (spec_polygonb nodes (lookup ts) = true <-> spec_polygon nodes ts).
Proof. exact oracle_is_spec. Qed.

(* no index panic, no fuel exhaustion, whatever the input *)
Theorem C18_way_polygon_total : forall (nodes : list Z) (ts : tags),
  way_polygon RT nodes ts <> IndexPanic /\ way_polygon RT nodes ts <> NoFuel.
Proof. exact way_polygon_RT_total. Qed.
Print Assumptions C18_way_polygon_total.

(* the same theorem for ANY table whose value lists are sorted and which equals a spec table as
   a set of rules (so it survives additions to the published table) *)
Theorem C18_way_polygon_any_sorted_table :
  forall (T : list rule) (S : list srule) (nodes : list Z) (ts : tags),
  table_sortedb T = true -> table_matchesb T S = true ->
  way_polygon T nodes ts = Val (closed_ringb nodes && spec_areab S (fun k => find k ts)).
Proof. exact way_polygon_bool_spec. Qed.
Print Assumptions C18_way_polygon_any_sorted_table.

(* ---- 3b. full WayNode values: annotations never matter ---- *)

(* the function over way nodes with version, changeset and location: the declarative
   specification of the REFS (map wid ns) — closedness is "first ref = last ref", whatever the
   versions and locations of the end nodes are *)
Theorem C18_way_polygon_waynodes_spec : forall (ns : list waynode) (ts : tags),
  NoDup (keys ts) ->
  exists b, way_polygon_wn RT ns ts = Val b /\ (b = true <-> spec_polygon (map wid ns) ts).
Proof. exact way_polygon_wn_RT_spec. Qed.
Print Assumptions C18_way_polygon_waynodes_spec.

Theorem C18_way_polygon_waynodes_bool : forall (ns : list waynode) (ts : tags),
  way_polygon_wn RT ns ts = Val (spec_polygonb (map wid ns) (fun k => find k ts)).
Proof. exact way_polygon_wn_RT_bool. Qed.

Theorem C18_annotations_irrelevant : forall (T : list rule) (ns ns' : list waynode) (ts : tags),
  map wid ns = map wid ns' -> way_polygon_wn T ns ts = way_polygon_wn T ns' ts.
Proof. exact way_polygon_wn_annotations. Qed.
Print Assumptions C18_annotations_irrelevant.

(* two different nodes on the same spot do not close a way; one node with two recorded
   locations does *)
Example ex_duplicate_location_is_not_closed :
  way_polygon_wn RT
    [mkWayNode 1 1 1 10 20; mkWayNode 2 1 1 10 21; mkWayNode 3 2 1 11 21; mkWayNode 4 1 1 11 20;
     mkWayNode 5 3 1 10 20]%Z [("building", "yes")] = Val false /\
  way_polygon_wn RT
    [mkWayNode 1 1 1 10 20; mkWayNode 2 1 1 10 21; mkWayNode 3 2 1 11 21; mkWayNode 4 1 1 11 20;
     mkWayNode 1 7 9 55 66]%Z [("building", "yes")] = Val true.
Proof. vm_compute. split; reflexivity. Qed.

(* ---- 4. the answer depends only on the tag set ---- *)

Theorem C18_tag_order_irrelevant : forall (T : list rule) (nodes : list Z) (ts ts' : tags),
  Permutation ts ts' -> NoDup (keys ts) ->
  way_polygon T nodes ts = way_polygon T nodes ts'.
Proof. exact way_polygon_perm. Qed.
Print Assumptions C18_tag_order_irrelevant.

(* a tag whose key is neither "area" nor a rule key can be inserted anywhere *)
Theorem C18_unrelated_tag_irrelevant :
  forall (T : list rule) (nodes : list Z) (l1 l2 : tags) (k v : string),
  ~ relevant T k ->
  way_polygon T nodes (l1 ++ (k, v) :: l2) = way_polygon T nodes (l1 ++ l2).
Proof. exact way_polygon_insert_irrelevant. Qed.
Print Assumptions C18_unrelated_tag_irrelevant.

(* all unrelated tags can be dropped at once *)
Theorem C18_only_relevant_tags_matter : forall (T : list rule) (nodes : list Z) (ts : tags),
  way_polygon T nodes (filter (fun t => relevantb T (fst t)) ts) = way_polygon T nodes ts.
Proof. exact way_polygon_filter_relevant. Qed.
Print Assumptions C18_only_relevant_tags_matter.

(* more generally: two tag lists that agree under Find on "area" and the rule keys *)
Theorem C18_depends_on_relevant_lookups : forall (T : list rule) (nodes : list Z) (ts ts' : tags),
  (forall k, relevant T k -> find k ts = find k ts') ->
  way_polygon T nodes ts = way_polygon T nodes ts'.
Proof. exact way_polygon_ext. Qed.

(* Tags.Find on a tag set: the value of the tag with that key, "" when there is none *)
Theorem C18_find_spec : forall (ts : tags) (k : string),
  NoDup (keys ts) ->
  (forall v, In (k, v) ts -> find k ts = v) /\
  (~ In k (keys ts) -> find k ts = "") /\
  lookup ts k = find k ts.
Proof.
  intros ts k Hnd. split; [intros v; exact (find_in k v ts Hnd)|].
  split; [exact (find_notin k ts)|exact (lookup_find ts k Hnd)].
Qed.
Print Assumptions C18_find_spec.

(* ---- 5. relations ---- *)

Theorem C18_relation_polygon_spec : forall ts : tags,
  NoDup (keys ts) ->
  (relation_polygon ts = true <->
   In ("type", "multipolygon") ts \/ In ("type", "boundary") ts).
Proof. exact relation_polygon_iff. Qed.
Print Assumptions C18_relation_polygon_spec.

Theorem C18_relation_polygon_any_tag_list : forall ts : tags,
  relation_polygon ts = true <-> find "type" ts = "multipolygon" \/ find "type" ts = "boundary".
Proof.
  intros ts. unfold relation_polygon. rewrite orb_true_iff, !String.eqb_eq. reflexivity.
Qed.

(* ---- 6. the other helpers of tag.go (used by C17): FindTag, HasTag, Map, AnyInteresting ---- *)

Theorem C18_find_is_find_tag_value : forall (k : string) (ts : tags),
  find k ts = match find_tag k ts with Some t => snd t | None => "" end.
Proof. exact find_find_tag. Qed.

Theorem C18_has_tag_iff : forall (k : string) (ts : tags),
  has_tag k ts = true <-> In k (keys ts).
Proof. exact has_tag_iff. Qed.

Theorem C18_find_tag_on_tag_set : forall (k v : string) (ts : tags),
  NoDup (keys ts) -> (In (k, v) ts <-> find_tag k ts = Some (k, v)).
Proof. exact find_tag_in. Qed.
Print Assumptions C18_find_tag_on_tag_set.

(* Map() keeps the LAST tag of a key ... *)
Theorem C18_map_is_last_match : forall (ts : tags) (k : string),
  tags_map ts k = match find_tag k (rev ts) with Some t => Some (snd t) | None => None end.
Proof. exact tags_map_last. Qed.
Print Assumptions C18_map_is_last_match.

(* ... and on a tag set it is the set, and agrees with Find *)
Theorem C18_map_on_tag_set : forall (ts : tags) (k v : string),
  NoDup (keys ts) -> (tags_map ts k = Some v <-> In (k, v) ts).
Proof. exact tags_map_set. Qed.
Print Assumptions C18_map_on_tag_set.

Theorem C18_map_agrees_with_find : forall (ts : tags) (k : string),
  NoDup (keys ts) -> find k ts = match tags_map ts k with Some v => v | None => "" end.
Proof. exact tags_map_find. Qed.

Theorem C18_any_interesting_iff : forall (U : list string) (ts : tags),
  any_interesting U ts = true <-> exists t, In t ts /\ ~ In (fst t) U.
Proof. exact any_interesting_iff. Qed.
Print Assumptions C18_any_interesting_iff.

Theorem C18_any_interesting_order_irrelevant : forall (U : list string) (ts ts' : tags),
  Permutation ts ts' -> any_interesting U ts = any_interesting U ts'.
Proof. exact any_interesting_perm. Qed.

Example ex_map_last_find_first :
  let ts := [("a", "1"); ("b", "2"); ("a", "3")] in
  find "a" ts = "1" /\ tags_map ts "a" = Some "3" /\ has_tag "c" ts = false.
Proof. vm_compute. repeat split. Qed.
Example ex_any_interesting :
  any_interesting_now [("source", "x"); ("created_by", "y")] = false /\
  any_interesting_now [("source", "x"); ("building", "yes")] = true.
Proof. vm_compute. split; reflexivity. Qed.

(* ---- non-vacuity and sharpness ---- *)

Definition ring4 : list Z := [100; 101; 102; 100]%Z.

(* the hypotheses are satisfiable by non-trivial objects *)
Example ex_sorted_list : sortedb ["dam"; "dock"; "dock"; "riverbank"] = true.
Proof. reflexivity. Qed.
Example ex_search : search_strings ["boatyard"; "dam"; "dock"; "riverbank"] "dock" = Val 2%nat
                    /\ search_strings ["boatyard"; "dam"; "dock"; "riverbank"] "dal" = Val 1%nat
                    /\ search_strings ["boatyard"; "dam"; "dock"; "riverbank"] "zoo" = Val 4%nat.
Proof. vm_compute. repeat split. Qed.
Example ex_tag_set : NoDup (keys [("highway", "elevator"); ("name", "x"); ("area", "")]).
Proof. repeat constructor; cbn; intuition discriminate. Qed.
Example ex_no_empty_listed : no_empty_listedb [("highway", "elevator"); ("name", ""); ("area", "")] = true.
Proof. reflexivity. Qed.
(* Tie by translation: the bodies of Way.Polygon, Relation.Polygon, Tags.Find, Tags.FindTag,
   Tags.HasTag, Tags.Map and Tags.AnyInteresting, regenerated from polygon.go / tag.go on every
   run (VerifGen.GenPolygonCode), are the model's functions, for all inputs and every rule table
   (a table as the Go code holds it: condition names as strings; the model's table is its image
   under decode_rule, and for the table of the code as it is now that image is RT).  A result of
   Way.Polygon is an option: None stands for a Go run-time panic / the search running out of
   fuel, which the other theorems exclude. *)
Theorem C18_generated_code_is_model :
  (forall ts k, gen_tags_find ts k = find k ts) /\
  (forall ts k, gen_tags_find_tag ts k = find_tag k ts) /\
  (forall ts k, gen_tags_has_tag ts k = has_tag k ts) /\
  (forall ts, gen_tags_map ts = tags_map ts) /\
  (forall ts, gen_tags_any_interesting ts = any_interesting_now ts) /\
  (forall ts, gen_relation_polygon ts = relation_polygon ts) /\
  (forall T nodes ts,
     gen_way_polygon T (nodes, ts) = res_opt (way_polygon_wn (map decode_rule T) nodes ts)) /\
  map decode_rule raw_table_now = RT /\
  (* ... and on the table the code really has after its own init() (the run-time dump) *)
  (forall nodes ts,
     gen_way_polygon poly_runtime_rules (nodes, ts) = res_opt (way_polygon_wn RT nodes ts)).
Proof.
  split; [exact gen_tags_find_ok|]. split; [exact gen_tags_find_tag_ok|].
  split; [exact gen_tags_has_tag_ok|]. split; [exact gen_tags_map_ok|].
  split; [exact gen_tags_any_interesting_ok|]. split; [exact gen_relation_polygon_ok|].
  split; [exact gen_way_polygon_ok|]. split; [exact raw_table_now_is_RT|].
  intros nodes ts. rewrite gen_way_polygon_ok.
  replace (map decode_rule poly_runtime_rules) with RT; [reflexivity|].
  rewrite <- runtime_table_is_RT. unfold runtime_table. apply map_ext. intros [[k c] vs]. reflexivity.
Qed.
Print Assumptions C18_generated_code_is_model.

Example ex_generated_code_runs :
  gen_way_polygon raw_table_now
    ([mkWayNode 100 0 0 0 0; mkWayNode 101 0 0 0 0; mkWayNode 102 0 0 0 0; mkWayNode 100 0 0 0 0],
     [("highway", "elevator"); ("name", "x")]) = Some true /\
  gen_way_polygon raw_table_now
    ([mkWayNode 100 0 0 0 0; mkWayNode 101 0 0 0 0; mkWayNode 102 0 0 0 0; mkWayNode 100 0 0 0 0],
     [("natural", "cliff")]) = Some false /\
  gen_relation_polygon [("type", "boundary")] = true.
Proof. vm_compute. repeat split. Qed.

Example ex_closed_ring : closed_ring ring4.
Proof. exists 100%Z, [101; 102]%Z. split; [reflexivity|apply le_n]. Qed.

(* instances, evaluated *)
Example ex_area : way_polygon RT ring4 [("highway", "elevator"); ("name", "x")] = Val true.
Proof. vm_compute. reflexivity. Qed.
Example ex_not_area : way_polygon RT ring4 [("highway", "primary")] = Val false.
Proof. vm_compute. reflexivity. Qed.
Example ex_area_no : way_polygon RT ring4 [("building", "yes"); ("area", "no")] = Val false.
Proof. vm_compute. reflexivity. Qed.
Example ex_three_refs : way_polygon RT [1; 2; 1]%Z [("building", "yes")] = Val false.
Proof. vm_compute. reflexivity. Qed.
Example ex_open : way_polygon RT [1; 2; 3; 4]%Z [("building", "yes")] = Val false.
Proof. vm_compute. reflexivity. Qed.
Example ex_relation : relation_polygon [("name", "x"); ("type", "boundary")] = true
                      /\ relation_polygon [("type", "route")] = false.
Proof. vm_compute. split; reflexivity. Qed.

(* sharpness 1: the sort in init is needed.  On the highway whitelist in SOURCE order the same
   search misses "elevator": the model follows the code, it does not assume the answer. *)
Example ex_unsorted_table_misclassifies :
  let T := [mkRule "highway" CWhitelist ["services"; "rest_area"; "escape"; "elevator"]] in
  table_sortedb T = false /\
  way_polygon T ring4 [("highway", "elevator")] = Val false /\
  way_polygon (init_table [("highway", cond_whitelist, ["services"; "rest_area"; "escape"; "elevator"])])
              ring4 [("highway", "elevator")] = Val true.
Proof. vm_compute. repeat split. Qed.

(* sharpness 2: with a repeated key the tag ORDER matters (so NoDup in C18_tag_order_irrelevant
   cannot be dropped); such a list is not a tag set *)
Example ex_duplicate_keys_order_matters :
  way_polygon RT ring4 [("area", "no"); ("area", "yes")] = Val false /\
  way_polygon RT ring4 [("area", "yes"); ("area", "no")] = Val true.
Proof. vm_compute. split; reflexivity. Qed.

(* sharpness 3: an empty value counts as absent *)
Example ex_empty_value_is_absent :
  way_polygon RT ring4 [("building", "")] = Val false /\
  way_polygon RT ring4 [("area", ""); ("building", "yes")] = Val true.
Proof. vm_compute. split; reflexivity. Qed.
