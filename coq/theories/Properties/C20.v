(* Properties/C20.v — osmapi calls hit the documented endpoint and map statuses to typed errors.

   ONLY statements, each closed by a lemma of C20/Proofs*.v, Print Assumptions, and examples.
   [url_of], [call] (C20/Model.v) interpret the URL expressions, option rules, status chain,
   count guards and NotFound type that translator/cmd/osmapi regenerates from /repo/osmapi on
   every run (gen/GenOsmapi.v); [spec_path], [spec_query], [request_ok], [status_class],
   [spec_result] (C20/SpecApi.v) are written from the API v0.6 documentation and never look at
   the generated file.  fmt/strconv/time/net-url text functions and net/http + encoding/xml are
   hand models (C20/Text.v, Model.v) tied by the correspondence run (harness/cmd/c20). *)
From Coq Require Import ZArith List String Ascii Bool.
From Verif Require Import C20.Syntax C20.Text C20.Types C20.Model C20.SpecApi
  C20.ProofsText C20.ProofsFloat C20.ProofsUrl C20.ProofsSpec C20.ProofsCall C20.GenOk.
Import ListNotations.
Open Scope Z_scope.
Open Scope list_scope.

(* 1. url_matches_spec.  For every call, every id / version / id list / option list / query
      string / configured base without '?': the URL handed to the transport, split at its
      first '?', is base ++ the documented path, and its query, decoded the way a server
      decodes it (split at '&' and '=', percent-decoding), is the documented parameter list in
      order.  Bounding-box coordinates are compared as numbers at OSM's resolution (half a unit
      of the 7th decimal); hypothesis [bbox_six_decimals] excludes exactly the known finding
      (statement 3). *)
Theorem C20_url_matches_spec : forall cfg ep,
  base_ok cfg = true -> options_valid ep = true -> args_finite ep = true ->
  bbox_six_decimals ep = true ->
  exists u, url_of cfg ep = Ok u /\ request_ok cfg ep u = true.
Proof. intros cfg ep Hb Hv Hf Hs. exact (url_matches_spec_at true cfg ep Hb Hv Hf (fun _ => Hs)). Qed.
Print Assumptions C20_url_matches_spec.

(* 2. the same for ALL finite bounding boxes, coordinates compared at half a unit of the 6th
      decimal: nothing but the 7th decimal of a bbox coordinate is ever lost *)
Theorem C20_url_matches_spec_upto_sixth_decimal : forall cfg ep,
  base_ok cfg = true -> options_valid ep = true -> args_finite ep = true ->
  exists u, url_of cfg ep = Ok u /\ request_ok_at false cfg ep u = true.
Proof.
  intros cfg ep Hb Hv Hf.
  exact (url_matches_spec_at false cfg ep Hb Hv Hf (fun E => False_ind _ (Bool.diff_false_true E))).
Qed.
Print Assumptions C20_url_matches_spec_upto_sixth_decimal.

(* 3. FULL statement (no bbox_six_decimals hypothesis):
        forall cfg ep, base_ok cfg = true -> options_valid ep = true -> args_finite ep = true ->
          exists u, url_of cfg ep = Ok u /\ request_ok cfg ep u = true
      is FALSE of the code: Notes with MaxLat = 1.1234564 requests ...,1.123456
      (known finding bbox-coordinate-needs-7th-decimal, replayed by the harness corpus). *)
Theorem C20_url_matches_spec_all_bboxes_refuted :
  exists cfg ep u,
    base_ok cfg = true /\ options_valid ep = true /\ args_finite ep = true /\
    url_of cfg ep = Ok u /\ request_ok cfg ep u = false.
Proof. exact url_matches_spec_strict_refuted. Qed.
Print Assumptions C20_url_matches_spec_all_bboxes_refuted.

(* 4. exactly one GET, limiter first.  With valid options the request trace is: Wait (when a
      limiter is set) then one GET of the URL of statement 1; a failing Wait ends the call
      before any request. *)
Theorem C20_one_get_after_wait : forall cfg lim ep resp,
  options_valid ep = true ->
  exists u, url_of cfg ep = Ok u /\
    o_trace (call cfg lim ep resp) =
    match lim with
    | NoLimiter => [EvRequest "GET" u]
    | LimiterOk => [EvWait; EvRequest "GET" u]
    | LimiterFails => [EvWait]
    end.
Proof.
  intros cfg lim ep resp Hv. exists (explicit_url cfg ep). split.
  - exact (url_of_explicit cfg ep Hv).
  - rewrite (call_trace cfg lim ep resp Hv). destruct lim; reflexivity.
Qed.
Print Assumptions C20_one_get_after_wait.

(* limiter_waits_first, as a statement about positions in the trace *)
Theorem C20_limiter_waits_first : forall cfg lim ep resp m u,
  lim <> NoLimiter -> In (EvRequest m u) (o_trace (call cfg lim ep resp)) ->
  exists rest, o_trace (call cfg lim ep resp) = EvWait :: rest /\ lim = LimiterOk.
Proof.
  intros cfg lim ep resp m u Hl Hin. destruct (options_valid ep) eqn:Hv.
  - rewrite (call_trace cfg lim ep resp Hv) in *. destruct lim; [congruence| |].
    + eexists; split; reflexivity.
    + destruct Hin as [E|[]]; discriminate.
  - rewrite (call_invalid cfg lim ep resp Hv) in Hin. destruct Hin.
Qed.
Print Assumptions C20_limiter_waits_first.

(* 5. an invalid option (limit outside 1..10000) or a failing limiter: nothing reaches the
      server, the call returns an ordinary error and no data *)
Theorem C20_no_request_without_permission : forall cfg lim ep resp,
  options_valid ep = false \/ lim = LimiterFails ->
  let o := call cfg lim ep resp in
  (forall m u, ~ In (EvRequest m u) (o_trace o)) /\
  class_of (o_err o) = COther /\ not_found (o_err o) = false /\ o_data o = None.
Proof. exact call_no_request. Qed.
Print Assumptions C20_no_request_without_permission.

(* 6. status_classes_distinct: the status chain read from getFromAPI realises the documented
      classes, for EVERY integer status: 200 is the only success, 404/403/410/414 each have
      their own class, every other code is "unexpected status", none is an untyped error *)
Theorem C20_status_classes_distinct : forall code,
  let c := class_of (status_error code) in
  (c = CNone <-> code = 200) /\ (c = CNotFound <-> code = 404) /\
  (c = CForbidden <-> code = 403) /\ (c = CGone <-> code = 410) /\
  (c = CURITooLong <-> code = 414) /\
  (c = CUnexpected <-> code <> 200 /\ code <> 404 /\ code <> 403 /\ code <> 410 /\ code <> 414) /\
  c <> COther.
Proof. intros code. cbv zeta. rewrite status_error_class. exact (status_class_cases code). Qed.
Print Assumptions C20_status_classes_distinct.

(* 7. not_found_iff_404: Datasource.NotFound(err) is true exactly when a request was made and
      answered 404 — for every call, limiter mode, response *)
Theorem C20_not_found_iff_404 : forall cfg lim ep resp,
  not_found (o_err (call cfg lim ep resp)) = true <->
  (options_valid ep = true /\ lim <> LimiterFails /\ r_status resp = 404).
Proof. exact not_found_iff. Qed.
Print Assumptions C20_not_found_iff_404.

(* 8. non_200_never_returns_data, whatever the body contains *)
Theorem C20_non_200_never_returns_data : forall cfg lim ep resp,
  r_status resp <> 200 ->
  let o := call cfg lim ep resp in o_data o = None /\ o_err o <> None.
Proof. exact non_200_no_data. Qed.
Print Assumptions C20_non_200_never_returns_data.

(* 9. the result is the documented one for every response: the typed error of the status, an
      ordinary error for an unreadable body or a wrong element count, otherwise exactly the
      elements of the response that the call is about, in order *)
Theorem C20_result_matches_response : forall cfg lim ep resp,
  options_valid ep = true -> lim <> LimiterFails ->
  let o := call cfg lim ep resp in
  match spec_result ep resp with
  | XData l => o_err o = None /\ o_data o = Some l
  | XErr c => class_of (o_err o) = c /\ o_data o = None
  end.
Proof. exact call_result. Qed.
Print Assumptions C20_result_matches_response.

(* 10. single_element_calls_reject_other_counts: Node, Way, Relation, their Version calls,
       Changeset(WithDiscussion), Note, User return the one element of their kind, and fail
       on 0 or >= 2 of them, whatever other elements surround them *)
Theorem C20_single_element_calls_reject_other_counts : forall cfg lim ep els,
  options_valid ep = true -> lim <> LimiterFails -> expect_one ep = true ->
  let o := call cfg lim ep {| r_status := 200; r_body := BOsm els |} in
  exists k, shape_of ep = One k /\
  ((count_kind k els = 1 ->
      exists id, filter (fun e => fst e =? k) els = [(k, id)] /\
                 o_err o = None /\ o_data o = Some [(k, id)])
   /\ (count_kind k els <> 1 -> class_of (o_err o) = COther /\ o_data o = None)).
Proof. exact expect_one_counts. Qed.
Print Assumptions C20_single_element_calls_reject_other_counts.

(* 11. the model is total on the property's domain: no configuration falls outside it, and no
       call indexes an empty result *)
Theorem C20_model_covers_every_call : forall cfg lim ep resp,
  o_bad (call cfg lim ep resp) = false /\ o_panic (call cfg lim ep resp) = false.
Proof. exact call_covered. Qed.
Print Assumptions C20_model_covers_every_call.

(* 12. text layer facts used above, for all byte strings / all finite floats *)
Theorem C20_query_escape_roundtrip : forall q, query_unescape (query_escape q) = Some q.
Proof. exact escape_roundtrip. Qed.
Print Assumptions C20_query_escape_roundtrip.

Theorem C20_percent_f_reads_back : forall x, finite x = true ->
  read_decimal (fmt_f x) = Some (f_neg x, scaled 6 x, 6%nat) /\
  coord_faithful false x (f_neg x, scaled 6 x, 6%nat) = true.
Proof. intros x H. split; [exact (fmt_f_read x H)|exact (scaled_lax x H)]. Qed.
Print Assumptions C20_percent_f_reads_back.

(* 13. the endpoint inductive covers every exported Datasource method of the current source *)
Theorem C20_every_exported_method_is_modelled :
  forallb (fun m => existsb (fun ep => String.eqb (method_name ep) (m_name m)) representatives)
          GenOsmapi.methods = true
  /\ List.length GenOsmapi.methods = List.length representatives.
Proof. split; [exact methods_covered|exact method_count]. Qed.
Print Assumptions C20_every_exported_method_is_modelled.

(* ---------- non-vacuity ---------- *)

Definition ex_bounds : bounds :=
  let c n m e := {| f_class := 0; f_neg := n; f_m := m; f_e := e |} in
  {| MinLon := c true 1 (-3); MinLat := c false 103 (-1); MaxLon := c false 0 0; MaxLat := c false 52 0 |}.
Definition ex_cfg : str := lit "http://osm.test/api/0.6".
Definition ex_ep : endpoint := Map ex_bounds [At 1451606400].

Example ex_hypotheses :
  base_ok ex_cfg = true /\ options_valid ex_ep = true /\ args_finite ex_ep = true /\
  bbox_six_decimals ex_ep = true.
Proof. vm_compute. repeat split. Qed.

Example ex_url :
  url_of ex_cfg ex_ep =
  Ok (lit "http://osm.test/api/0.6/map?bbox=-0.125000,51.500000,0.000000,52.000000&at=2016-01-01T00:00:00Z").
Proof. vm_compute. reflexivity. Qed.

Example ex_search :
  url_of [] (NotesSearch (lit "a b&c=d") [MaxDaysClosed (-1); Limit 10000]) =
  Ok (lit "http://api.openstreetmap.org/api/0.6/notes/search?q=a+b%26c%3Dd&closed=-1&limit=10000")
  /\ options_valid (NotesSearch (lit "a b&c=d") [Limit 10001]) = false.
Proof. vm_compute. split; reflexivity. Qed.

Example ex_multi :
  url_of ex_cfg (Multi Way [1; -2; 9223372036854775807] []) =
  Ok (lit "http://osm.test/api/0.6/ways?ways=1,-2,9223372036854775807").
Proof. vm_compute. reflexivity. Qed.

Example ex_call_ok :
  let o := call ex_cfg LimiterOk (Get Node 5 []) {| r_status := 200; r_body := BOsm [(2, 9); (1, 5)] |} in
  o_trace o = [EvWait; EvRequest "GET" (lit "http://osm.test/api/0.6/node/5?")] /\
  o_data o = Some [(1, 5)] /\ expect_one (Get Node 5 []) = true.
Proof. vm_compute. repeat split. Qed.

Example ex_call_two_nodes :
  let o := call ex_cfg NoLimiter (Get Node 5 []) {| r_status := 200; r_body := BOsm [(1, 5); (1, 6)] |} in
  class_of (o_err o) = COther /\ o_data o = None.
Proof. vm_compute. split; reflexivity. Qed.

Example ex_call_gone :
  let o := call ex_cfg NoLimiter (Full FRelation 7 []) {| r_status := 410; r_body := BOsm [(3, 7)] |} in
  class_of (o_err o) = CGone /\ not_found (o_err o) = false /\ o_data o = None.
Proof. vm_compute. repeat split. Qed.

Example ex_wait_fails :
  o_trace (call ex_cfg LimiterFails (User 1) {| r_status := 200; r_body := BOsm [(6, 1)] |}) = [EvWait].
Proof. vm_compute. reflexivity. Qed.

Example ex_float : finite (MinLon ex_bounds) = true /\ fmt_f (MinLon ex_bounds) = lit "-0.125000".
Proof. vm_compute. split; reflexivity. Qed.
