(* Properties/C20.v — osmapi calls hit the documented endpoint and map statuses to typed errors.

   ONLY statements, each closed by a lemma of C20/Proofs*.v, Print Assumptions, and examples.
   [url_of], [call], [call_w] (C20/Model.v) interpret what translator/cmd/osmapi regenerates from
   /repo/osmapi on every run (gen/GenOsmapi.v): the URL expressions, option rules, the SEQUENCE OF
   EFFECTFUL CALLS of getFromAPI (api_steps: Wait, NewRequest, Do, Close, status chain, Decode —
   any other call expression in getFromAPI is a translator error), the status chain, count guards
   and NotFound type.  The request trace of a call is what the interpreter produces from that
   sequence (ProofsCall.interp_closed is the obligation that breaks when the sequence changes,
   e.g. a second client.Do).  Domain of the statements: [base_wf] bases (absolute http(s) URL made
   of characters net/url sends unchanged, no query / fragment; or the default), valid options,
   finite bbox coordinates, at= times of the years 0000..9999. [spec_path], [spec_query], [request_ok], [status_class],
   [spec_result] (C20/SpecApi.v) are written from the API v0.6 documentation and never look at
   the generated file.  fmt/strconv/strings/time/net-url text functions and net/http + encoding/xml are
   hand models (C20/Text.v, Model.v) tied by the correspondence run (harness/cmd/c20). *)
From Coq Require Import ZArith List String Ascii Bool.
From Verif Require Import C20.Syntax C20.Text C20.Types C20.Model C20.SpecApi
  C20.Closed C20.ProofsText C20.ProofsFloat C20.ProofsTime C20.ProofsUrl C20.ProofsSpec C20.ProofsCall C20.GenOk.
Import ListNotations.
Open Scope Z_scope.
Open Scope list_scope.

(* 1. url_matches_spec.  For every call, every id / version / id list / option list / query
      string / finite bounding box / configured base without '?': the URL handed to the
      transport, split at its first '?', is base ++ the documented path, and its query, decoded
      the way a server decodes it (split at '&' and '=', percent-decoding), is the documented
      parameter list in order.  Bounding-box coordinates are compared as numbers at OSM's
      resolution: each transmitted coordinate is within half a unit of the 7th decimal of the
      argument.  (Full statement; it was refuted for the unrepaired code, see 3.) *)
Theorem C20_url_matches_spec : forall cfg ep,
  base_wf cfg = true -> options_valid ep = true -> args_finite ep = true -> times_in_range ep = true ->
  exists u, url_of cfg ep = Ok u /\ request_ok cfg ep u = true.
Proof. exact (url_matches_spec_at true). Qed.
Print Assumptions C20_url_matches_spec.

(* 2. what formatCoord transmits, for every finite float64: the text reads back as
      round-half-even(|x| * 10^7) / 10^7 (a zero 7th decimal dropped), within half a unit of the
      7th decimal of x *)
Theorem C20_format_coord_reads_back : forall x, finite x = true ->
  let n := scaled 7 x in
  read_decimal (coord_text x) =
    Some (if n mod 10 =? 0 then (f_neg x, n / 10, 6%nat) else (f_neg x, n, 7%nat)) /\
  coord_text_ok true x (coord_text x) = true.
Proof. intros x H. split; [exact (coord_text_read x H)|exact (coord_text_faithful true x H)]. Qed.
Print Assumptions C20_format_coord_reads_back.

(* 3. the finding that was repaired (fix: commit in /repo, known_findings.d/C20.json): the
      package printed bbox coordinates with %f; six decimals are not faithful at OSM's
      resolution, formatCoord is *)
Theorem C20_percent_f_is_lossy :
  exists x, finite x = true /\ coord_text_ok true x (fmt_f x) = false /\
            coord_text_ok true x (coord_text x) = true.
Proof. exact percent_f_lossy. Qed.
Print Assumptions C20_percent_f_is_lossy.

(* the URL expression of Datasource.Notes as it was before the repair (the same term the
   translator emitted then: Sprintf with bbox=%f,%f,%f,%f), interpreted by the same [eval]:
   url_matches_spec fails for it *)
Definition original_notes_url : sexpr :=
  ESprintf "%s/notes?%s" (ACons EBase (ACons (EJoin (LNotesOpts (LSnoc LNil
    (ESprintf "bbox=%f,%f,%f,%f" (ACons (EField 0 "MinLon") (ACons (EField 0 "MinLat")
       (ACons (EField 0 "MaxLon") (ACons (EField 0 "MaxLat") ANil)))))) 1) "&") ANil)).

Theorem C20_original_bbox_expression_refuted :
  exists cfg b u,
    base_wf cfg = true /\ args_finite (Notes b []) = true /\
    eval apply_opt {| e_base := base_url cfg; e_params := params_of (Notes b []); e_opt := None |}
         original_notes_url = Ok (VStr u) /\
    request_ok cfg (Notes b []) u = false.
Proof.
  exists (lit "http://osm.test"),
    {| MinLon := {| f_class := 0; f_neg := false; f_m := 1; f_e := 0 |};
       MinLat := {| f_class := 0; f_neg := false; f_m := 2; f_e := 0 |};
       MaxLon := {| f_class := 0; f_neg := false; f_m := 3; f_e := 0 |};
       MaxLat := {| f_class := 0; f_neg := false; f_m := 5059597824406999; f_e := -52 |} |},
    (lit "http://osm.test/notes?bbox=1.000000,2.000000,3.000000,1.123456").
  repeat split; vm_compute; reflexivity.
Qed.
Print Assumptions C20_original_bbox_expression_refuted.

(* 4. exactly one GET, limiter first.  With valid options the request trace is: Wait (when a
      limiter is set) then one GET of the URL of statement 1; a failing Wait ends the call
      before any request. *)
Theorem C20_one_get_after_wait : forall cfg lim ep resp,
  base_wf cfg = true -> options_valid ep = true ->
  exists u, url_of cfg ep = Ok u /\
    o_trace (call cfg lim ep resp) =
    match lim with
    | NoLimiter => [EvRequest "GET" u]
    | LimiterOk => [EvWait; EvRequest "GET" u]
    | LimiterFails => [EvWait]
    end.
Proof.
  intros cfg lim ep resp Hb Hv. exists (explicit_url cfg ep). split.
  - exact (url_of_explicit cfg ep Hv).
  - rewrite (i_call_trace cfg lim ep resp Hb Hv). destruct lim; reflexivity.
Qed.
Print Assumptions C20_one_get_after_wait.

(* limiter_waits_first, as a statement about positions in the trace *)
Theorem C20_limiter_waits_first : forall cfg lim ep resp m u,
  base_wf cfg = true ->
  lim <> NoLimiter -> In (EvRequest m u) (o_trace (call cfg lim ep resp)) ->
  exists rest, o_trace (call cfg lim ep resp) = EvWait :: rest /\ lim = LimiterOk.
Proof.
  intros cfg lim ep resp m u Hb Hl Hin. destruct (options_valid ep) eqn:Hv.
  - rewrite (i_call_trace cfg lim ep resp Hb Hv) in *. destruct lim; [congruence| |].
    + eexists; split; reflexivity.
    + destruct Hin as [E|[]]; discriminate.
  - rewrite (i_call_invalid cfg lim ep resp Hb Hv) in Hin. destruct Hin.
Qed.
Print Assumptions C20_limiter_waits_first.

(* 5. an invalid option (limit outside 1..10000) or a failing limiter: nothing reaches the
      server, the call returns an ordinary error and no data *)
Theorem C20_no_request_without_permission : forall cfg lim ep resp,
  base_wf cfg = true ->
  options_valid ep = false \/ lim = LimiterFails ->
  let o := call cfg lim ep resp in
  (forall m u, ~ In (EvRequest m u) (o_trace o)) /\
  class_of (o_err o) = COther /\ not_found (o_err o) = false /\ o_data o = None.
Proof. exact i_call_no_request. Qed.
Print Assumptions C20_no_request_without_permission.

(* 5b. a base URL the client refuses (no http(s) scheme, a control character, a '%' that is not
      an escape, a space in the host): the limiter, if any, has been asked, nothing is sent, the
      call fails with an ordinary error — in every world *)
Theorem C20_unusable_base_sends_nothing : forall cfg w ep,
  url_refused (base_url cfg) = true -> options_valid ep = true ->
  call_w cfg w ep =
  {| o_trace := match w_lim w with NoLimiter => [] | _ => [EvWait] end;
     o_err := Some ""%string; o_data := None; o_panic := false; o_bad := false |}.
Proof. exact call_w_unusable_base. Qed.
Print Assumptions C20_unusable_base_sends_nothing.

(* 6. status_classes_distinct: the status chain read from getFromAPI realises the documented
      classes, for EVERY integer status: 200 is the only success, 404/403/410/414 each have
      their own class, every other code is "unexpected status", none is an untyped error *)
Theorem C20_status_classes_distinct : forall code,
  let c := class_of (status_error code) in
  (c = CNone <-> code = 200) /\ (c = CNotFound <-> code = 404) /\
  (c = CForbidden <-> code = 403) /\ (c = CGone <-> code = 410) /\
  (c = CURITooLong <-> code = 414) /\
  (c = CUnexpected <-> code <> 200 /\ code <> 404 /\ code <> 403 /\ code <> 410 /\ code <> 414) /\
  c <> COther.
Proof. intros code. cbv zeta. rewrite status_error_class. exact (status_class_cases code). Qed.
Print Assumptions C20_status_classes_distinct.

(* 7. not_found_iff_404: Datasource.NotFound(err) is true exactly when a request was made and
      answered 404 — for every call, limiter mode, response *)
Theorem C20_not_found_iff_404 : forall cfg lim ep resp,
  base_wf cfg = true ->
  not_found (o_err (call cfg lim ep resp)) = true <->
  (options_valid ep = true /\ lim <> LimiterFails /\ r_status resp = 404).
Proof. exact i_not_found_iff. Qed.
Print Assumptions C20_not_found_iff_404.

(* 8. non_200_never_returns_data, whatever the body contains *)
Theorem C20_non_200_never_returns_data : forall cfg lim ep resp,
  base_wf cfg = true -> r_status resp <> 200 ->
  let o := call cfg lim ep resp in o_data o = None /\ o_err o <> None.
Proof. exact i_non_200_no_data. Qed.
Print Assumptions C20_non_200_never_returns_data.

(* 9. the result is the documented one for every response: the typed error of the status, an
      ordinary error for an unreadable body or a wrong element count, otherwise exactly the
      elements of the response that the call is about, in order *)
Theorem C20_result_matches_response : forall cfg lim ep resp,
  base_wf cfg = true -> options_valid ep = true -> lim <> LimiterFails ->
  let o := call cfg lim ep resp in
  match spec_result ep resp with
  | XData l => o_err o = None /\ o_data o = Some l
  | XErr c => class_of (o_err o) = c /\ o_data o = None
  end.
Proof. exact i_call_result. Qed.
Print Assumptions C20_result_matches_response.

(* 10. single_element_calls_reject_other_counts: Node, Way, Relation, their Version calls,
       Changeset(WithDiscussion), Note, User return the one element of their kind, and fail
       on 0 or >= 2 of them, whatever other elements surround them *)
Theorem C20_single_element_calls_reject_other_counts : forall cfg lim ep els,
  base_wf cfg = true -> options_valid ep = true -> lim <> LimiterFails -> expect_one ep = true ->
  let o := call cfg lim ep {| r_status := 200; r_body := BOsm els |} in
  exists k, shape_of ep = One k /\
  ((count_kind k els = 1 ->
      exists id, filter (fun e => fst e =? k) els = [(k, id)] /\
                 o_err o = None /\ o_data o = Some [(k, id)])
   /\ (count_kind k els <> 1 -> class_of (o_err o) = COther /\ o_data o = None)).
Proof. exact i_expect_one_counts. Qed.
Print Assumptions C20_single_element_calls_reject_other_counts.

(* 11. the model is total on the property's domain: no configuration falls outside it, and no
       call indexes an empty result *)
Theorem C20_model_covers_every_call : forall cfg w ep,
  base_wf cfg = true ->
  o_bad (call_w cfg w ep) = false /\ o_panic (call_w cfg w ep) = false.
Proof. exact i_call_w_covered. Qed.
Print Assumptions C20_model_covers_every_call.

(* 12. text layer facts used above, for all byte strings / all finite floats *)
Theorem C20_query_escape_roundtrip : forall q, query_unescape (query_escape q) = Some q.
Proof. exact escape_roundtrip. Qed.
Print Assumptions C20_query_escape_roundtrip.

(* 13. the endpoint inductive covers every exported Datasource method of the current source *)
Theorem C20_every_exported_method_is_modelled :
  forallb (fun m => existsb (fun ep => String.eqb (method_name ep) (m_name m)) representatives)
          GenOsmapi.methods = true
  /\ List.length GenOsmapi.methods = List.length representatives.
Proof. split; [exact methods_covered|exact method_count]. Qed.
Print Assumptions C20_every_exported_method_is_modelled.

(* 14. result shape of every method, spelled out.  The table of shapes ... *)
Theorem C20_shape_of_every_call : forall ep,
  shape_of ep =
  match ep with
  | Get Node _ _ | Version Node _ _ => One 1
  | Get Way _ _ | Version Way _ _ => One 2
  | Get Relation _ _ | Version Relation _ _ => One 3
  | Changeset _ | ChangesetWithDiscussion _ => One 4
  | Note _ => One 5
  | User _ => One 6
  | Multi Node _ _ | History Node _ => Many 1
  | Multi Way _ _ | History Way _ | NodeWays _ _ => Many 2
  | Multi Relation _ _ | History Relation _ | RelationsOf _ _ _ => Many 3
  | Notes _ _ | NotesSearch _ _ => Many 5
  | Full _ _ _ | Map _ _ => Whole
  | ChangesetDownload _ => WholeChange
  end.
Proof. exact shape_table. Qed.
Print Assumptions C20_shape_of_every_call.

(* ... is what the generated method bodies implement: decode target, returned field and count
   guard of every exported method agree with its shape *)
Theorem C20_every_method_implements_its_shape : forall ep,
  exists m, find_method (method_name ep) = Some m /\
            ret_matches (m_target m) (m_ret m) (shape_of ep).
Proof. exact method_matches. Qed.
Print Assumptions C20_every_method_implements_its_shape.

(* list calls (Nodes/Ways/Relations, the History calls, NodeWays, the *Relations calls, Notes,
   NotesSearch): all elements of the call's kind in document order, nothing else; an empty
   list is a result, not an error *)
Theorem C20_list_calls_return_their_kind : forall cfg lim ep k els,
  base_wf cfg = true -> options_valid ep = true -> lim <> LimiterFails -> shape_of ep = Many k ->
  let o := call cfg lim ep (ok200 (BOsm els)) in
  o_err o = None /\ o_data o = Some (filter (fun e => fst e =? k) els).
Proof. exact i_many_returns_kind. Qed.
Print Assumptions C20_list_calls_return_their_kind.

(* WayFull, RelationFull, Map: the whole document *)
Theorem C20_whole_document_calls : forall cfg lim ep els,
  base_wf cfg = true -> options_valid ep = true -> lim <> LimiterFails -> shape_of ep = Whole ->
  let o := call cfg lim ep (ok200 (BOsm els)) in
  o_err o = None /\ o_data o = Some (by_kind els).
Proof. exact i_whole_returns_document. Qed.
Print Assumptions C20_whole_document_calls.

(* ChangesetDownload: a non-nil change holding the create / modify / delete sections; there is
   no element-count condition: an empty osmChange, or an <osm> document, is an empty change *)
Theorem C20_changeset_download_returns_sections : forall cfg lim id c m d els,
  base_wf cfg = true -> lim <> LimiterFails ->
  (let o := call cfg lim (ChangesetDownload id) (ok200 (BChange c m d)) in
   o_err o = None /\ o_data o = Some (tagged 1 c ++ tagged 2 m ++ tagged 3 d)) /\
  (let o := call cfg lim (ChangesetDownload id) (ok200 (BOsm els)) in
   o_err o = None /\ o_data o = Some []).
Proof. exact i_download. Qed.
Print Assumptions C20_changeset_download_returns_sections.

(* a READING OF THE SPECIFICATION's own options_valid (not a statement about the code): Limit is
   valid exactly in [1, 10000], MaxDaysClosed always (any int, negative included).  The tie to
   the code is in statement 1 (valid options: the URL is defined and carries limit= / closed= in
   the order given) and statement 5 (an invalid option: no request) *)
Theorem C20_notes_options_valid_iff : forall b q os,
  (options_valid (Notes b os) = true <-> (forall n, In (Limit n) os -> 1 <= n <= 10000)) /\
  (options_valid (NotesSearch q os) = true <-> (forall n, In (Limit n) os -> 1 <= n <= 10000)).
Proof. intros b q os. split; exact (notes_options_valid_iff os). Qed.
Print Assumptions C20_notes_options_valid_iff.

(* 15. worlds: redirects and cancellation.  [call_w] adds to [call] a hand model of what
   http.Client.Do does (net/http, not osmapi code): follow up to 10 requests, or hand a 3xx
   back; send nothing for a finished context; and a limiter that refuses a finished context.
   The world without redirects and with a live context is the plain call: *)
Theorem C20_plain_world : forall cfg lim ep resp,
  call_w cfg (plain_world lim resp) ep = call cfg lim ep resp.
Proof. reflexivity. Qed.
Print Assumptions C20_plain_world.

(* what "exactly one GET" means in every world: at most one Wait, first; then — if the limiter,
   the context and the options permit — ONE request by the package, a GET of the documented URL
   (statement 1), followed only by the GETs of the Locations the server named and the client's
   policy follows (at most 9); nothing otherwise *)
Theorem C20_trace_in_every_world : forall cfg w ep,
  base_wf cfg = true -> options_valid ep = true ->
  exists u, url_of cfg ep = Ok u /\
    o_trace (call_w cfg w ep) =
    (if waits w ep then [EvWait] else []) ++
    (if permitted w ep then map (EvRequest "GET") (u :: spec_followed w) else []).
Proof.
  intros cfg w ep Hb Hv. exists (explicit_url cfg ep). split; [exact (url_of_explicit cfg ep Hv)|].
  exact (i_world_trace cfg w ep Hb Hv).
Qed.
Print Assumptions C20_trace_in_every_world.

(* the result in every world that permits the request: that of the final answer when redirects
   are followed (<= 9 hops), unexpected-status for a 3xx handed back, an ordinary error after
   the 10th request or when the context is cancelled in flight; never data with an error *)
Theorem C20_result_in_every_world : forall cfg w ep,
  base_wf cfg = true -> options_valid ep = true -> permitted w ep = true -> redirect_status_ok w = true ->
  let o := call_w cfg w ep in
  match spec_result_w w ep with
  | XData l => o_err o = None /\ o_data o = Some l
  | XErr c => class_of (o_err o) = c /\ o_data o = None
  end.
Proof. exact i_world_result. Qed.
Print Assumptions C20_result_in_every_world.

(* a refusing limiter or a context that is already done: no request at all *)
Theorem C20_refused_in_every_world : forall cfg w ep,
  base_wf cfg = true -> options_valid ep = true -> permitted w ep = false ->
  let o := call_w cfg w ep in
  (forall m u, ~ In (EvRequest m u) (o_trace o)) /\
  class_of (o_err o) = COther /\ not_found (o_err o) = false /\ o_data o = None.
Proof. exact i_world_refused. Qed.
Print Assumptions C20_refused_in_every_world.

(* 16. the effect sequence read out of getFromAPI, and its meaning.  [api_steps] is generated;
   the interpreter over it equals the closed form "Wait (if a limiter is set; its error
   returns), one client.Do of the one request built for the url parameter with the context,
   status chain, decode" — the equation every trace statement above goes through *)
Theorem C20_effect_sequence :
  GenOsmapi.api_steps = [SWait true true; SNewRequest "GET" true; SDo true true; SClose; SStatus; SDecode]
  /\ forall w url target, get_from_api_w false w url target = get_from_api_wc w url target.
Proof. split; [reflexivity|exact interp_closed]. Qed.
Print Assumptions C20_effect_sequence.

(* a second client.Do in the sequence is a second group of requests in the trace: the
   statements above are NOT true of every effect sequence (witness: the sequence with the Do
   step doubled sends two GETs) *)
Theorem C20_doubled_do_refuted :
  let steps := [SWait true true; SNewRequest "GET" true; SDo true true; SDo true true; SClose; SStatus; SDecode] in
  let w := plain_world NoLimiter {| r_status := 200; r_body := BOsm [] |} in
  g_trace (fold_left (exec_step false w (lit "u") "OSM") steps
             {| g_trace := []; g_method := None; g_resp := None; g_out := None; g_bad := false |})
  = [EvRequest "GET" (lit "u"); EvRequest "GET" (lit "u")].
Proof. reflexivity. Qed.
Print Assumptions C20_doubled_do_refuted.

(* 17. the model's calendar against the specification's: for EVERY day number (unbounded) the
   date the model's formatter computes is a valid Gregorian date whose textbook day count
   (SpecApi.days_from_civil, defined independently) is that day number; and for every instant of
   the years 0000..9999 the text the model prints is accepted by the specification's reader *)
Theorem C20_calendar : forall d,
  let '(y, m, dd) := civil_of_days d in
  valid_date y m dd = true /\ days_from_civil y m dd = d.
Proof. exact civil_of_days_correct. Qed.
Print Assumptions C20_calendar.

Theorem C20_time_text : forall t, time_in_range t = true ->
  time_text_ok t (fmt_time "2006-01-02T15:04:05Z" t) = true.
Proof. intros t H. rewrite fmt_time_iso. exact (time_text_ok_of_model t H). Qed.
Print Assumptions C20_time_text.

(* 18. the decimal printer the specification shares with the model, characterised by the
   independent reader: the text of a number denotes that number, a comma-joined id list splits
   back into the texts of its ids *)
Theorem C20_decimal_texts_denote_their_numbers : forall z ids,
  read_decimal (dec z) = Some (z <? 0, Z.abs z, 0%nat) /\
  (ids <> [] -> split_on "," (join (lit ",") (map dec ids)) = map dec ids).
Proof. intros z ids. split; [exact (dec_reads_back z)|exact (ids_split_back ids)]. Qed.
Print Assumptions C20_decimal_texts_denote_their_numbers.

(* 19. the package-level entry points (osmapi.Node, osmapi.Nodes, ..., 27 functions): each exists
   and its body is exactly `return DefaultDatasource.<same name>(<its own parameters>)` (read by
   the translator; any other body is a translator error), so every statement above holds for them
   with the configuration of DefaultDatasource; exercised by the harness class package-level *)
Theorem C20_package_functions_delegate :
  forallb (fun m => existsb (String.eqb (m_name m)) GenOsmapi.package_functions) GenOsmapi.methods = true
  /\ List.length GenOsmapi.package_functions = List.length GenOsmapi.methods.
Proof. exact package_functions_cover_methods. Qed.
Print Assumptions C20_package_functions_delegate.

(* ---------- non-vacuity ---------- *)

Definition ex_bounds : bounds :=
  let c n m e := {| f_class := 0; f_neg := n; f_m := m; f_e := e |} in
  {| MinLon := c true 1 (-3); MinLat := c false 103 (-1); MaxLon := c false 0 0; MaxLat := c false 52 0 |}.
Definition ex_cfg : str := lit "http://osm.test/api/0.6".
Definition ex_ep : endpoint := Map ex_bounds [At 1451606400].

Example ex_hypotheses :
  base_wf ex_cfg = true /\ options_valid ex_ep = true /\ args_finite ex_ep = true /\
  times_in_range ex_ep = true /\ base_wf [] = true /\
  base_wf (lit "http://proxy.test/fetch/https%3A%2F%2Fapi.osm.org/api/0.6") = true.
Proof. vm_compute. repeat split. Qed.

Example ex_bad_bases :
  base_wf (lit "http://osm.test/api?x=1") = false /\ base_wf (lit "http://osm.test/api#frag") = false /\
  base_wf (lit "http://osm.test/a b") = false /\ base_wf (lit "osm.test/api") = false /\
  url_refused (lit "http://osm.test/%zz/api") = true /\ url_refused (lit "http://bad host/api") = true /\
  url_refused (lit "osm.test/api") = true /\ url_refused (lit "http://osm.test/a b") = false.
Proof. vm_compute. repeat split. Qed.

Example ex_url :
  url_of ex_cfg ex_ep =
  Ok (lit "http://osm.test/api/0.6/map?bbox=-0.125000,51.500000,0.000000,52.000000&at=2016-01-01T00:00:00Z").
Proof. vm_compute. reflexivity. Qed.

Example ex_search :
  url_of [] (NotesSearch (lit "a b&c=d") [MaxDaysClosed (-1); Limit 10000]) =
  Ok (lit "http://api.openstreetmap.org/api/0.6/notes/search?q=a+b%26c%3Dd&closed=-1&limit=10000")
  /\ options_valid (NotesSearch (lit "a b&c=d") [Limit 10001]) = false.
Proof. vm_compute. split; reflexivity. Qed.

Example ex_multi :
  url_of ex_cfg (Multi Way [1; -2; 9223372036854775807] []) =
  Ok (lit "http://osm.test/api/0.6/ways?ways=1,-2,9223372036854775807").
Proof. vm_compute. reflexivity. Qed.

Example ex_call_ok :
  let o := call ex_cfg LimiterOk (Get Node 5 []) {| r_status := 200; r_body := BOsm [(2, 9); (1, 5)] |} in
  o_trace o = [EvWait; EvRequest "GET" (lit "http://osm.test/api/0.6/node/5?")] /\
  o_data o = Some [(1, 5)] /\ expect_one (Get Node 5 []) = true.
Proof. vm_compute. repeat split. Qed.

Example ex_call_two_nodes :
  let o := call ex_cfg NoLimiter (Get Node 5 []) {| r_status := 200; r_body := BOsm [(1, 5); (1, 6)] |} in
  class_of (o_err o) = COther /\ o_data o = None.
Proof. vm_compute. split; reflexivity. Qed.

Example ex_call_gone :
  let o := call ex_cfg NoLimiter (Full FRelation 7 []) {| r_status := 410; r_body := BOsm [(3, 7)] |} in
  class_of (o_err o) = CGone /\ not_found (o_err o) = false /\ o_data o = None.
Proof. vm_compute. repeat split. Qed.

Example ex_wait_fails :
  o_trace (call ex_cfg LimiterFails (User 1) {| r_status := 200; r_body := BOsm [(6, 1)] |}) = [EvWait].
Proof. vm_compute. reflexivity. Qed.

Definition ex_coord : fl := {| f_class := 0; f_neg := false; f_m := 5059597824406999; f_e := -52 |}.
Example ex_float :
  finite (MinLon ex_bounds) = true /\ coord_text (MinLon ex_bounds) = lit "-0.125000" /\
  coord_text ex_coord = lit "1.1234564" /\ fmt_f ex_coord = lit "1.123456".
Proof. vm_compute. repeat split. Qed.

Definition ex_world : world :=
  {| w_lim := LimiterOk; w_ctx := CtxLive; w_follow := true;
     w_hops := [lit "http://mirror.test/a"; lit "http://mirror.test/b"]; w_hop_status := 302;
     w_resp := {| r_status := 200; r_body := BOsm [(6, 9)] |} |}.
Example ex_redirects :
  let o := call_w ex_cfg ex_world (User 9) in
  o_trace o = [EvWait; EvRequest "GET" (lit "http://osm.test/api/0.6/user/9");
               EvRequest "GET" (lit "http://mirror.test/a"); EvRequest "GET" (lit "http://mirror.test/b")]
  /\ o_data o = Some [(6, 9)] /\ permitted ex_world (User 9) = true.
Proof. vm_compute. repeat split. Qed.

Example ex_cancelled_before :
  let w := {| w_lim := LimiterOk; w_ctx := CtxCancelledBefore; w_follow := true; w_hops := [];
              w_hop_status := 302; w_resp := {| r_status := 200; r_body := BOsm [(6, 9)] |} |} in
  o_trace (call_w ex_cfg w (User 9)) = [EvWait] /\ permitted w (User 9) = false.
Proof. vm_compute. split; reflexivity. Qed.

Example ex_download :
  o_data (call ex_cfg NoLimiter (ChangesetDownload 3) (ok200 (BChange [(1, 4)] [(2, 5); (1, 6)] [(3, 7)])))
  = Some [(11, 4); (21, 6); (22, 5); (33, 7)].
Proof. vm_compute. reflexivity. Qed.
