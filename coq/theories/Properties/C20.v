(* Properties/C20.v — osmapi calls hit the documented endpoint and map statuses to typed errors.
   (placeholder while the pipeline is brought up; statements follow) *)
From Coq Require Import ZArith List String.
From Verif Require Import C20.Syntax C20.Text C20.Types C20.Model C20.SpecApi.
Import ListNotations.
Open Scope Z_scope.
