(* Properties/C02.v — Parallel PBF decoding preserves file order under every schedule.
   Statements only; proofs are in Pipeline/Proofs*.v over the LTS of Pipeline/Model.v. *)
From Coq Require Import ZArith List Bool Arith Lia.
From Verif Require Import Pipeline.Model Pipeline.Exec Pipeline.ProofsBasic Pipeline.ProofsOrder Pipeline.Witness.
Import ListNotations.

(* NOT PROVED (full statement; the order invariant of DESIGN.md 4.1, see Pipeline/ProofsOrder.v for
   the invariant's definition [dinv]/[up_ok] and notes/C02_ProofsOrder_unfinished.v.txt for the
   unfinished inductive step):

   Theorem C02_delivered_is_prefix : forall c s, wf_cfg c = true -> current c = true -> reach c s ->
     exists t, delivered s ++ t = expected (c_inp c).
   Theorem C02_no_deadlock : forall c s, wf_cfg c = true -> current c = true -> reach c s ->
     c_pc s = CNext -> exists l s' o, step c l s = Some (s', o).
   Theorem C02_completes : forall c s, wf_cfg c = true -> current c = true -> reach c s ->
     s_err s = eEOF -> delivered s = expected (c_inp c) /\ final_err (c_inp c) = eEOF.

   What is proved about order is the specification-side half and the per-case correspondence:
   every harness run is checked in Coq against [expected] (judgement 2) and against the model's
   run (judgement 1). *)

(* specification side: the objects of the first m file blocks, all but the last of them free of
   errors, are a prefix of the file's elements (for every well-formed input and every m) *)
Theorem C02_blocks_prefix_partial : forall inp m, wf_input inp = true ->
  (forall k, k + 1 < m -> err_of (rd inp k) = 0%Z) ->
  exists t, concat (map (fun k => objs_of (rd inp k)) (seq 0 m)) ++ t = expected inp.
Proof. exact pre_prefix. Qed.
Print Assumptions C02_blocks_prefix_partial.

(* FALSE for the original serializer (no re-check of the context after a receive): when another
   goroutine cancels while Scan is blocked, a worker may drop block 1 in its select and the
   serializer still forward block 2: objects 1, 3 are delivered.  Replayed on the real code
   (17 of 30000 runs with the cancel issued from a filter callback); fixed in 6ff9f52. *)
Theorem C02_overtake_refuted :
  exists c sched, wf_cfg c = true /\ c_recheck c = false /\
    delivered (fst (run c sched (init c))) = [1%Z; 3%Z] /\ expected (c_inp c) = [1%Z; 2%Z; 3%Z; 4%Z].
Proof. exists cfg_over, sched_over. vm_compute. repeat split. Qed.
Print Assumptions C02_overtake_refuted.

Example C02_no_overtake_now : delivered (fst over_run_now) = [1%Z].
Proof. vm_compute. reflexivity. Qed.

(* non-vacuity: a complete fair run with 3 workers delivers the file in order *)
Example C02_full_run : delivered (fst full_run) = expected in7 /\ snd full_run = true /\ err_value (fst full_run) = 0%Z.
Proof. vm_compute. repeat split. Qed.
