(* Properties/C02.v — Parallel PBF decoding preserves file order under every schedule.
   Statements only; proofs are in Pipeline/Proofs*.v over the LTS of Pipeline/Model.v. *)
From Coq Require Import ZArith List Bool Arith Lia.
From Verif Require Import Pipeline.Model Pipeline.Exec Pipeline.ProofsBasic Pipeline.ProofsChain Pipeline.ProofsOrder Pipeline.ProofsLive Pipeline.ProofsErr Pipeline.ProofsLive2 Pipeline.ProofsPos Pipeline.Theorems Pipeline.Witness.
Import ListNotations.

(* 1. THE ORDER THEOREM.  For every decoder count n >= 1, every input (blocks, undecodable blocks,
   read errors), and every reachable state of the LTS — i.e. every interleaving of the reader, the
   n workers, the serializer, the consumer and the API calls (Scan, Header, Err, Close, cancel from
   the scanning goroutine, cancel from another goroutine at any moment), with every resolution of
   every select, rendezvous channels for n > 10 included — what the consumer has been given is a
   prefix of the file's elements in file order: nothing lost, duplicated, swapped between blocks.
   Hypotheses: the serializer re-checks the context after a receive and Next takes the error from
   the context (the code as it is now; see C02_overtake_refuted for the original code). *)
Theorem C02_delivered_is_prefix : forall c s,
  wf_cfg c = true -> c_recheck c = true -> c_nextctx c = true -> reach c s ->
  exists t, delivered s ++ t = expected (c_inp c).
Proof. exact delivered_is_prefix_all. Qed.
Print Assumptions C02_delivered_is_prefix.

(* the same in consumer-visible terms: the objects returned by the successful Scans of ANY run
   (any schedule, as a list of labels; disabled labels are skipped) are a prefix of the elements *)
Theorem C02_scans_are_prefix : forall c sched,
  wf_cfg c = true -> c_recheck c = true -> c_nextctx c = true ->
  exists t, scan_vals (snd (run c sched (init c))) ++ t = expected (c_inp c).
Proof. exact scans_are_prefix. Qed.
Print Assumptions C02_scans_are_prefix.

(* 1b. THE POSITION TAG TRAVELS WITH ITS OWN BLOCK (Pipeline/ProofsPos.v; used by C09 for the
   reported offsets: decode.go copies p.Offset into the oPair next to the decoded objects, the LTS
   carries [o_pos]).  In every reachable state the j-th pair waiting in the ordered queue is the
   result of file position c_cnt + j, and the pair the consumer takes next carries position c_cnt
   together with exactly that block's objects and error. *)
Theorem C02_ordered_queue_holds_own_blocks : forall c, 1 <= c_n c -> wf_input (c_inp c) = true ->
  c_recheck c = true -> c_nextctx c = true ->
  forall s, reach c s -> forall j p, nth_error (oq s) j = Some p ->
  p = decode (c_cnt s + j, rd (c_inp c) (c_cnt s + j)).
Proof. exact oq_holds_own_blocks. Qed.
Print Assumptions C02_ordered_queue_holds_own_blocks.

Theorem C02_pair_carries_own_position : forall c, 1 <= c_n c -> wf_input (c_inp c) = true ->
  c_recheck c = true -> c_nextctx c = true ->
  forall s p q, reach c s -> oq s = p :: q ->
  o_pos p = c_cnt s /\ o_objs p = objs_of (rd (c_inp c) (c_cnt s)) /\ o_err p = err_of (rd (c_inp c) (c_cnt s)).
Proof. exact next_takes_own_block. Qed.
Print Assumptions C02_pair_carries_own_position.

Theorem C02_taken_pair_is_own_block : forall c, 1 <= c_n c -> wf_input (c_inp c) = true ->
  c_recheck c = true -> c_nextctx c = true ->
  forall s s' o, reach c s -> step c LCo s = Some (s', o) -> c_cnt s' = S (c_cnt s) ->
  exists p, oq s = p :: oq s' /\ o_pos p = c_cnt s /\
            o_objs p = objs_of (rd (c_inp c) (c_cnt s)) /\ o_err p = err_of (rd (c_inp c) (c_cnt s)).
Proof. exact taken_pair_is_own_block. Qed.
Print Assumptions C02_taken_pair_is_own_block.

(* ENVIRONMENT ASSUMPTION of 2, 2b (and of the C07 termination theorems): every call of the underlying
   io.Reader.Read, of dataDecoder.Decode and of the user's Filter* callbacks RETURNS: in the model the
   reader's read step and the worker's decode step are always enabled (see C07_close_waits_for_read). *)

(* 2. NO DEADLOCK.  In every reachable state in which the scanning goroutine is inside a call
   (blocked in Next during Scan, or in the wg.Wait of Close), some goroutine — reader, a worker,
   the serializer or the consumer itself — has an enabled step: nobody waits for the environment.
   All n >= 1, including n > 10 where the worker channels are unbuffered (rendezvous). *)
Theorem C02_no_deadlock : forall c s, wf_cfg c = true -> current c = true -> reach c s ->
  c_pc s <> CIdle -> exists l s' o, is_progress l = true /\ step c l s = Some (s', o).
Proof. exact T_no_deadlock. Qed.
Print Assumptions C02_no_deadlock.

(* 2b. NO LIVELOCK: EVERY Next CALL RETURNS (Pipeline/ProofsLive2.v).  A potential [phi] (remaining
   input, queue contents and pcs before cancellation; the cancellation measure afterwards, never
   larger) strictly decreases on every goroutine step taken while the scanning goroutine is inside
   Next.  Hence along ANY schedule (pipeline and consumer steps, cancellation from another
   goroutine at any moment), as long as Next has not returned at most phi s goroutine steps have
   happened and one more is enabled: the call returns whatever the scheduler does. *)
Theorem C02_next_potential_decreases : forall c l s s' o, wf_cfg c = true -> current c = true ->
  reach c s -> c_pc s = CNext -> c_pc s' = CNext -> is_progress2 l = true ->
  step c l s = Some (s', o) -> phi c s' < phi c s.
Proof. exact T_phi_decreases. Qed.
Print Assumptions C02_next_potential_decreases.

Theorem C02_next_returns : forall c sched s, wf_cfg c = true -> current c = true ->
  reach c s -> c_pc s = CNext -> forallb next_label sched = true ->
  c_pc (fst (run c sched s)) = CNext ->
  ptaken2 c sched s <= phi c s /\
  exists l s' o, is_progress l = true /\ step c l (fst (run c sched s)) = Some (s', o).
Proof. exact T_next_returns. Qed.
Print Assumptions C02_next_returns.

(* 3. COMPLETES.  In a run without Close and without cancellation of the caller's context (header
   readable), a scan can only end with the file's own final error, after every element before it
   was delivered; for a file that ends with EOF: the full sequence, then EOF.  Together with 1 and
   2: every such run delivers a growing prefix, never gets stuck, and can only stop complete. *)
Theorem C02_completes : forall c s, wf_cfg c = true -> current c = true -> reach c s ->
  c_hdr_err c = 0%Z -> closed s = false -> pcancelled s = false -> s_err s <> 0%Z ->
  delivered s = expected (c_inp c) /\ final_err (c_inp c) = s_err s.
Proof. exact T_completes. Qed.
Print Assumptions C02_completes.

(* and a Scan that returns false without Close / cancellation of the caller's context HAS recorded an
   error; so with 2b (each call returns) and 1 (at most |expected| successful Scans): every run
   without Close/cancel reaches a state to which C02_completes applies *)
Theorem C02_false_scan_records : forall c l s s' o v, c_nextctx c = true -> step c l s = Some (s', o) -> In (OScan false v) o ->
  closed s' = false -> pcancelled s' = false -> s_err s' <> 0%Z.
Proof. exact T_false_scan_records. Qed.
Print Assumptions C02_false_scan_records.

(* specification side: the objects of the first m file blocks, all but the last of them free of
   errors, are a prefix of the file's elements (for every well-formed input and every m) *)
Theorem C02_blocks_prefix : forall inp m, wf_input inp = true ->
  (forall k, k + 1 < m -> err_of (rd inp k) = 0%Z) ->
  exists t, concat (map (fun k => objs_of (rd inp k)) (seq 0 m)) ++ t = expected inp.
Proof. exact pre_prefix. Qed.
Print Assumptions C02_blocks_prefix.

(* FALSE for the original serializer (no re-check of the context after a receive): when another
   goroutine cancels while Scan is blocked, a worker may drop block 1 in its select and the
   serializer still forward block 2: objects 1, 3 are delivered.  Replayed on the real code
   (17 of 30000 runs with the cancel issued from a filter callback); fixed in 413adf1. *)
Theorem C02_overtake_refuted :
  exists c sched, wf_cfg c = true /\ c_recheck c = false /\
    delivered (fst (run c sched (init c))) = [1%Z; 3%Z] /\ expected (c_inp c) = [1%Z; 2%Z; 3%Z; 4%Z].
Proof. exists cfg_over, sched_over. vm_compute. repeat split. Qed.
Print Assumptions C02_overtake_refuted.

Example C02_no_overtake_now : delivered (fst over_run_now) = [1%Z].
Proof. vm_compute. reflexivity. Qed.

(* non-vacuity of the hypotheses: a well-formed current configuration with 3 workers, 12 workers
   (unbuffered channels) ... *)
Example C02_hyps_sat : wf_cfg (cfg_now 3 in7) = true /\ current (cfg_now 3 in7) = true /\
                       wf_cfg (cfg_now 12 in7) = true /\ cap (cfg_now 12 in7) = 0.
Proof. vm_compute. repeat split. Qed.

(* ... and a complete fair run with 3 workers delivers the file in order *)
Example C02_full_run : delivered (fst full_run) = expected in7 /\ snd full_run = true /\ err_value (fst full_run) = 0%Z.
Proof. vm_compute. repeat split. Qed.
