(* Properties/C02.v — Parallel PBF decoding preserves file order under every schedule.
   Statements only; proofs are in Pipeline/Proofs*.v over the LTS of Pipeline/Model.v. *)
From Coq Require Import ZArith List Bool Arith Lia.
From Verif Require Import Pipeline.Model Pipeline.Exec Pipeline.ProofsBasic Pipeline.Witness.
Import ListNotations.

(* FALSE for the original serializer (no re-check of the context after a receive): when another
   goroutine cancels while Scan is blocked, a worker may drop block 1 in its select and the
   serializer still forward block 2: objects 1, 3 are delivered.  Replayed on the real code
   (17 of 30000 runs with the cancel issued from a filter callback); fixed in 6ff9f52. *)
Theorem C02_overtake_refuted :
  exists c sched, wf_cfg c = true /\ c_recheck c = false /\
    delivered (fst (run c sched (init c))) = [1%Z; 3%Z] /\ expected (c_inp c) = [1%Z; 2%Z; 3%Z; 4%Z].
Proof. exists cfg_over, sched_over. vm_compute. repeat split. Qed.
Print Assumptions C02_overtake_refuted.

Example C02_no_overtake_now : delivered (fst over_run_now) = [1%Z].
Proof. vm_compute. reflexivity. Qed.

(* non-vacuity: a complete fair run with 3 workers delivers the file in order *)
Example C02_full_run : delivered (fst full_run) = expected in7 /\ snd full_run = true /\ err_value (fst full_run) = 0%Z.
Proof. vm_compute. repeat split. Qed.
