(* Properties/C02.v — Parallel PBF decoding preserves file order under every schedule.
   Statements only; proofs are in Pipeline/Proofs*.v over the LTS of Pipeline/Model.v. *)
From Coq Require Import ZArith List Bool Arith Lia.
From Verif Require Import Pipeline.Model Pipeline.Exec.
Import ListNotations.
