(* Properties/C09.v — Resuming a PBF scan at the reported byte offset loses no element.

   ONLY statements closed by [exact] of lemmas of C09/Proofs.v, Print Assumptions, examples.
   Model: Framing/Model.v — [scan] (readFileBlock's bytesRead accounting, the offset captured
   before each read and carried with the block, the first non-header block taken at offset 0),
   [consume]/[trace]/[fsb_after]/[pfsb_after] (decoder.Next shifting pOffset/cOffset, the two
   accessors), [seek] (data[offset:] as frames).  Spec: C09/Spec.v.  A block's objects are the ones
   it yields under the scanner's skip flags and filters, so blocks emptied by skip flags or by
   Filter* functions are frames with no objects (the harness empties blocks both ways); the theorems hold for arbitrary object lists per block. *)
From Coq Require Import ZArith List Bool Arith Lia.
From Verif Require Import Framing.Model Framing.Valid Framing.Proofs Framing.Bytes C06.Spec C06.Proofs
                          C06.ProofsBytes C06.Bridge
                          C09.Spec C09.Proofs C09.ProofsTrees C09.AfterError.
Import ListNotations.
Open Scope Z_scope.

(* 1. After every Scan of a complete scan: FullyScannedBytes is the offset (relative to where the
      reader started) of the block containing the object just returned, and
      PreviousFullyScannedBytes is the value that was current during the preceding data block
      (0 for the first), empty blocks included. *)
Theorem C09_offsets_exact : forall (T : Type) (fs : list (frame T)),
  valid_file fs = true ->
  trace (scan current fs (total_size fs)) = spec_trace fs.
Proof. exact (@offsets_exact). Qed.
Print Assumptions C09_offsets_exact.

Theorem C09_reported_offsets : forall (T : Type) (fs : list (frame T)) (k : nat),
  valid_file fs = true -> (k <= length (objs_of fs))%nat ->
  let r := scan current fs (total_size fs) in
  spec_fsb fs k = Some (fsb_after r k) /\ spec_pfsb fs k = Some (pfsb_after r k).
Proof. exact (@reported_offsets). Qed.
Print Assumptions C09_reported_offsets.

(* ... and once Scan has returned false: the last data block's start and the start of the one
   before it, blocks emptied by skip flags included *)
Theorem C09_final_offsets : forall (T : Type) (fs : list (frame T)),
  valid_file fs = true ->
  final_offsets 0 0 (deliveries (scan current fs (total_size fs))) = spec_final fs.
Proof. exact (@final_offsets_exact). Qed.
Print Assumptions C09_final_offsets.

(* 2. A new scanner on data[off:], off = start of data block j (its first block is then a data
      block, decoded at offset 0): exactly the objects of blocks j, j+1, ..., no error. *)
Theorem C09_resume : forall (T : Type) (fs : list (frame T)) (j : nat),
  valid_file fs = true ->
  let ds := data_frames fs in
  let off := start_of fs j in
  exists rest,
    seek off fs = Some rest /\
    objects (scan current rest (total_size fs - off)) =
      (if off =? 0 then objs_of fs else objs_of (skipn j ds)) /\
    out (scan current rest (total_size fs - off)) = Done.
Proof. exact (@resume). Qed.
Print Assumptions C09_resume.

(* 2b. data[offset:] literally: dropping from the file's bytes the encoding of the first j blocks
   leaves the encoding of the remaining blocks, and the byte-level scan of that suffix is the
   frame-level scan that [C09_resume] speaks of (Framing/Bytes.v: prefix decoding, io.ReadFull on
   bytes, proto.Unmarshal as arbitrary functions of the bytes). *)
Theorem C09_resume_bytes :
  forall (T : Type) (parse_hdr : list Z -> hdr) (parse_blob : btype -> list Z -> blobp T) v
         (bfs : list bframe) (j : nat),
  Forall (aligned parse_hdr) bfs -> Forall (fun bf => 0 <= bf_pfx bf) bfs ->
  b_scan parse_hdr parse_blob v (skipn (length (encode (firstn j bfs))) (encode bfs)) =
  scan v (map (abstract parse_hdr parse_blob) (skipn j bfs))
         (total_size (map (abstract parse_hdr parse_blob) (skipn j bfs))).
Proof. exact (@resume_bytes). Qed.
Print Assumptions C09_resume_bytes.

(* 3. Stop after ANY number k of returned objects (0 .. all) and resume at the reported offset:
      k' <= k objects precede the current block, and those followed by what the second scanner
      returns are exactly all objects of the file: nothing skipped, nothing corrupted. *)
Theorem C09_stop_and_resume_loses_nothing : forall (T : Type) (fs : list (frame T)) (k : nat),
  valid_file fs = true -> (k <= length (objs_of fs))%nat ->
  let all := objs_of fs in
  let off := fsb_after (scan current fs (total_size fs)) k in
  exists rest k',
    seek off fs = Some rest /\ (k' <= k)%nat /\
    out (scan current rest (total_size fs - off)) = Done /\
    firstn k' all ++ objects (scan current rest (total_size fs - off)) = all.
Proof. exact (@stop_and_resume_loses_nothing). Qed.
Print Assumptions C09_stop_and_resume_loses_nothing.

(* The theorems above take a block's objects as a function of the block (and the skip flags).  That is
   justified by layer L1 (theories/Pbf): the outcome of decoding a block's message tree does not depend
   on the state of the decoder that does it, so the fresh decoder of the second scanner returns what the
   worker of the first scan returned ... *)
Theorem C09_block_outcome_state_independent : forall c st1 st2 m,
  decode_tree c st1 m = decode_tree c st2 m.
Proof. exact decode_tree_state_independent. Qed.
Print Assumptions C09_block_outcome_state_independent.

(* ... and composed with the framing theorems: "a new scanner yields the same elements".  The same
   bytes are described twice: [fs1] as the workers of the first scan decode them (every data payload
   is what a worker in SOME decoder state makes of the block's message tree), [fs2] as the decoders
   of the resumed scanner do (same tree, any other state, e.g. the fresh one); framing fields,
   encodings and header payloads are those of the bytes.  Stop the first scan after ANY k objects:
   the second scanner started at the reported offset ends without error, and k' <= k objects of the
   first scan followed by what the SECOND scanner's decoders produce are exactly the objects the
   first scan's workers would have produced: nothing skipped, nothing corrupted. *)
Theorem C09_stop_and_resume_on_trees :
  forall c (fs1 fs2 : list (frame Verif.Pbf.Model.obj)) (k : nat),
  Forall2 (same_block c) fs1 fs2 ->
  valid_file fs1 = true -> (k <= length (objs_of fs1))%nat ->
  let all := objs_of fs1 in
  let off := fsb_after (scan current fs1 (total_size fs1)) k in
  exists rest k',
    seek off fs2 = Some rest /\ (k' <= k)%nat /\
    out (scan current rest (total_size fs2 - off)) = Done /\
    firstn k' all ++ objects (scan current rest (total_size fs2 - off)) = all.
Proof. exact stop_and_resume_on_trees. Qed.
Print Assumptions C09_stop_and_resume_on_trees.

Theorem C09_resume_on_trees :
  forall c (fs1 fs2 : list (frame Verif.Pbf.Model.obj)) (j : nat),
  Forall2 (same_block c) fs1 fs2 -> valid_file fs1 = true ->
  let off := start_of fs1 j in
  exists rest,
    seek off fs2 = Some rest /\
    objects (scan current rest (total_size fs2 - off)) =
      (if off =? 0 then objs_of fs1 else objs_of (skipn j (data_frames fs1))) /\
    out (scan current rest (total_size fs2 - off)) = Done.
Proof. exact resume_on_trees. Qed.
Print Assumptions C09_resume_on_trees.

(* That the offset reaches Next together with the objects of ITS block when several decoders run
   concurrently is proved on the pipeline LTS of property C02 (Pipeline/ProofsPos.v, stated in
   Properties/C02.v as C02_pair_carries_own_position / C02_taken_pair_is_own_block); in the
   sequential model below the pairing holds by construction of [blocks_loop]. *)

(* the complete scan of a valid stream, with the offsets the blocks carry *)
Theorem C09_scan_valid : forall (T : Type) (fs : list (frame T)),
  valid_file fs = true -> scan current fs (total_size fs) = Result (spec_deliveries fs) Done.
Proof. exact (@scan_valid). Qed.
Print Assumptions C09_scan_valid.

(* OUTSIDE the property, modelled and observed: the offsets after a scan that FAILED.  The property
   speaks of stop positions after returned objects of a valid file; what the two accessors report
   once Scan has returned false with an error is not constrained by it.  The code's behaviour (an
   error travels as a pair as well, Next shifts before looking at the error; a reader-side error
   pair carries Offset 0, a decode error pair the bad block's offset) is modelled in
   Framing/Model.v ([scan_err_off], [end_offsets]) and compared with the implementation on every cut
   and every damage class by the C06 harness.  For a truncated valid file: FullyScannedBytes = 0,
   PreviousFullyScannedBytes = the offset of the last complete data block taken.  Resuming from
   either re-delivers objects, it never skips one. *)
Theorem C09_end_offsets_after_truncation : forall (T : Type) (f : frame T) r k,
  valid_file (f :: r) = true -> frame_size f <= k <= total_size (f :: r) ->
  is_boundary (f :: r) k = false ->
  end_offsets (scan current (f :: r) k) (scan_err_off current (f :: r) k)
  = (snd (spec_final (frames_before (f :: r) k)), 0).
Proof. exact (@end_offsets_after_truncation). Qed.
Print Assumptions C09_end_offsets_after_truncation.

(* ---- non-vacuity: header, a block, a block emptied by skip flags, two more blocks ---- *)
Definition xh : frame Z :=
  Frame 14 14 (HdrOk TyHeader 30) 30 (BlobOk (Blob EncRaw (PHeader (HOk true)))).
Definition xd (n : Z) (objs : list Z) : frame Z :=
  Frame 12 12 (HdrOk TyData n) n (BlobOk (Blob (EncZlib 70 (InflOk 70)) (PData (DOk objs)))).
Definition xfile : list (frame Z) := [xh; xd 40 [5; 9]; xd 41 []; xd 42 [13]; xd 43 [17; 21]].

Example xfile_valid : valid_file xfile = true /\ total_size xfile = 278.
Proof. vm_compute. split; reflexivity. Qed.

Example xfile_trace :
  trace (scan current xfile 278) =
  [(5, 48, 0); (9, 48, 0); (13, 161, 104); (17, 219, 161); (21, 219, 161)].
Proof. vm_compute. reflexivity. Qed.

Example xfile_final : final_offsets 0 0 (deliveries (scan current xfile 278)) = (161, 219).
Proof. vm_compute. reflexivity. Qed.

(* stop after the third object (13, in the block at 161, after the empty block at 104) *)
Example xfile_stop3 :
  fsb_after (scan current xfile 278) 3 = 161 /\
  seek 161 xfile = Some [xd 42 [13]; xd 43 [17; 21]] /\
  scan current [xd 42 [13]; xd 43 [17; 21]] (278 - 161) = Result [(0, [13]); (58, [17; 21])] Done.
Proof. vm_compute. repeat split; reflexivity. Qed.

(* an offset that is not a block start is not a valid place to resume *)
Example xfile_seek_inside : seek 100 xfile = None.
Proof. vm_compute. reflexivity. Qed.

(* cut inside the last block: (PreviousFullyScannedBytes, FullyScannedBytes) = (161, 0); a decode
   error in the last block instead carries that block's offset: (161, 219) *)
Example xfile_cut_in_last_block :
  end_offsets (scan current xfile 250) (scan_err_off current xfile 250) = (161, 0)
  /\ out (scan current xfile 250) = Failed.
Proof. vm_compute. split; reflexivity. Qed.
Example xfile_decode_error_in_last_block :
  let bad := [xh; xd 40 [5; 9]; xd 41 []; xd 42 [13];
              Frame 12 12 (HdrOk TyData 43) 43 (BlobOk (Blob (EncZlib 70 (InflOk 70)) (PData DErr)))] in
  end_offsets (scan current bad 278) (scan_err_off current bad 278) = (161, 219).
Proof. vm_compute. reflexivity. Qed.

