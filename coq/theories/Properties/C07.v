(* Properties/C07.v — Close and cancellation stop PBF/XML scans promptly, cleanly and race-free.

   Statements only; proofs are in Pipeline/Proofs*.v.  The PBF pipeline model is
   Pipeline/Model.v (an interleaving LTS of decode.go/scanner.go), the XML scanner is the
   sequential machine of Pipeline/Exec.v. *)
From Coq Require Import ZArith List Bool Arith Lia.
From Verif Require Import Pipeline.Model Pipeline.Exec Pipeline.ProofsXml.
Import ListNotations.

(* ---- XML scanner ---- *)
Theorem C07_xml_close_scan_false : forall a x h,
  (a = CCloseCall \/ a = CCancel \/ a = CCancel3) ->
  forallb (fun o => negb (scan_true o)) (concat (snd (xrun h (fst (xstep a x))))) = true.
Proof. exact xml_stop_scan_false. Qed.
Print Assumptions C07_xml_close_scan_false.

Theorem C07_xml_err_nil_only_complete : forall objs h,
  let x := fst (xrun h (xinit objs eEOF)) in
  x_err_value x = 0%Z ->
  (x_err x = eEOF /\ x_delivered x = objs) \/ (x_err x = 0%Z /\ x_closed x = false /\ x_ctx x = false).
Proof. exact xml_err_nil_only_complete. Qed.
Print Assumptions C07_xml_err_nil_only_complete.
