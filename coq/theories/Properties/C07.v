(* Properties/C07.v — Close and cancellation stop PBF/XML scans promptly, cleanly and race-free.

   Statements only; proofs are in Pipeline/Proofs*.v.  The PBF pipeline is the interleaving LTS of
   Pipeline/Model.v (decode.go Start/Next/Close + scanner.go; [reach c s] = s is reachable from
   [init c] by ANY sequence of enabled steps: every interleaving of reader, workers, serializer,
   consumer and API calls, every resolution of every select).  [current c] selects the code as it
   is now; the variant flags off give the original code, for which the *_refuted witnesses hold.
   The XML scanner is the sequential machine of Pipeline/Exec.v.

   Partial (DESIGN.md section 7): the model is sequentially consistent over its atomic steps; a
   data race in the Go memory model cannot be exhibited by a theorem.  The one unsynchronised
   access pair of the original code (serializer writing cData.Err, consumer reading/writing cData)
   is modelled as interleaved writes: C07_err_lost_refuted shows its sequentially consistent
   consequence, the repaired code no longer has the access, and the thorough tier runs the
   harness under the race detector. *)
From Coq Require Import ZArith List Bool Arith Lia.
From Verif Require Import Pipeline.Model Pipeline.Exec Pipeline.ProofsBasic Pipeline.ProofsChain Pipeline.ProofsOrder
  Pipeline.ProofsLive Pipeline.ProofsErr Pipeline.ProofsTerm Pipeline.Theorems Pipeline.ProofsXml Pipeline.Witness.
Import ListNotations.

(* ---- 1. "returns without consuming the rest of the input" ---- *)
(* at most one further block read starts after the internal context is cancelled (Close, a
   cancelled parent context, or the serializer's own exit), for every n, input and schedule *)
Theorem C07_bounded_read_ahead : forall c s, c_and c = true -> reach c s -> rac s <= 1.
Proof. exact bounded_read_ahead. Qed.
Print Assumptions C07_bounded_read_ahead.

(* FALSE for the original loop condition  ctx.Err() == nil || err == nil : after Close the reader
   goroutine reads the whole remaining input (here: 5 blocks and the EOF).  Replayed on the real
   code by harness/cmd/c07 (counting reader: up to 146 reads after the cancel); fixed in 687d55c. *)
Theorem C07_bounded_read_ahead_refuted :
  exists c sched, wf_cfg c = true /\ c_and c = false /\ rac (fst (run c sched (init c))) = 6.
Proof. exists cfg_or, sched_close_first. vm_compute. repeat split. Qed.
Print Assumptions C07_bounded_read_ahead_refuted.

(* ---- 2. "every later Scan returns false" ---- *)
Theorem C07_close_scan_false : forall c s s' o, step c (LApi CScan) s = Some (s', o) ->
  closed s = true \/ pcancelled s = true ->
  o = [OScan false 0%Z] /\ c_pc s' = CIdle /\ delivered s' = delivered s.
Proof. exact scan_after_stop_false. Qed.
Print Assumptions C07_close_scan_false.

(* Close and cancellation are permanent *)
Theorem C07_stop_is_permanent : forall c l s s' o, step c l s = Some (s', o) ->
  (cancelled s = true -> cancelled s' = true) /\ (closed s = true -> closed s' = true) /\
  (pcancelled s = true -> pcancelled s' = true).
Proof. intros c l s s' o H. destruct (step_flags_mono c l s s' o H) as (A & B & C & _). auto. Qed.
Print Assumptions C07_stop_is_permanent.

(* when the stops are issued by the scanning goroutine, no step whatsoever produces a successful
   Scan after the stop *)
Theorem C07_no_true_scan_after_self_stop : forall c l s s' o, reach c s -> step c l s = Some (s', o) ->
  third s' = false -> (closed s = true \/ pcancelled s = true) ->
  forallb (fun x => negb (scan_true x)) o = true.
Proof. exact no_true_scan_after_self_stop. Qed.
Print Assumptions C07_no_true_scan_after_self_stop.

(* ---- 3. Err ---- *)
(* precedence, as Scanner.Err computes it: a recorded non-EOF error wins; a recorded EOF gives nil;
   otherwise ErrScannerClosed after Close; otherwise the context's error after cancellation *)
Theorem C07_err_precedence : forall s,
  (s_err s <> 0%Z -> s_err s <> eEOF -> err_value s = s_err s) /\
  (s_err s = eEOF -> err_value s = 0%Z) /\
  (s_err s = 0%Z -> closed s = true -> err_value s = eClosed) /\
  (s_err s = 0%Z -> closed s = false -> pcancelled s = true -> err_value s = eCtx) /\
  (s_err s = 0%Z -> closed s = false -> pcancelled s = false -> err_value s = 0%Z).
Proof. exact err_precedence. Qed.
Print Assumptions C07_err_precedence.

(* nil only after a complete scan: in every reachable state (every schedule, concurrent
   cancellation included) Err() = nil means that the scan ended with EOF after delivering every
   element, or that nothing has ended or stopped the scan yet *)
Theorem C07_err_nil_only_complete : forall c s, wf_cfg c = true -> current c = true -> reach c s ->
  c_hdr_err c <> eEOF -> err_value s = 0%Z ->
  (s_err s = eEOF /\ delivered s = expected (c_inp c) /\ final_err (c_inp c) = eEOF) \/
  (s_err s = 0%Z /\ closed s = false /\ pcancelled s = false).
Proof. exact T_err_nil_only_complete. Qed.
Print Assumptions C07_err_nil_only_complete.

(* a recorded error is genuine: the header's error (nothing was started), the context's error
   (and the context is cancelled), or the file's own final error after all elements before it *)
Theorem C07_recorded_error_genuine : forall c s, wf_cfg c = true -> current c = true -> reach c s ->
  s_err s <> 0%Z ->
  (running s = false /\ s_err s = c_hdr_err c) \/
  (s_err s = eCtx /\ cancelled s = true) \/
  (delivered s = expected (c_inp c) /\ final_err (c_inp c) = s_err s).
Proof. exact T_recorded_error. Qed.
Print Assumptions C07_recorded_error_genuine.

(* "an error recorded earlier": once an error is recorded no step of any goroutine or API call
   changes it *)
Theorem C07_recorded_error_sticky : forall c l s s' o, wf_cfg c = true -> current c = true -> reach c s ->
  step c l s = Some (s', o) -> s_err s <> 0%Z -> s_err s' = s_err s.
Proof. exact T_recorded_error_sticky. Qed.
Print Assumptions C07_recorded_error_sticky.

(* "complete" in C07_err_nil_only_complete means: up to the first item of the file that reports
   io.EOF.  If no data block's decoder and no read before the end of the list reports io.EOF
   ([no_eof_item]; an assumption about decode_data.go/zlib that the harness checks per case: after
   a bad block Err must be that block's error), nil means the objects of EVERY block were delivered *)
Theorem C07_err_nil_every_block : forall c s, wf_cfg c = true -> current c = true -> reach c s ->
  c_hdr_err c <> eEOF -> no_eof_item (c_inp c) = true -> err_value s = 0%Z ->
  (s_err s = eEOF /\ delivered s = all_objs (c_inp c)) \/
  (s_err s = 0%Z /\ closed s = false /\ pcancelled s = false).
Proof. exact T_err_nil_every_block. Qed.
Print Assumptions C07_err_nil_every_block.

(* without that assumption the statement with "every block" is FALSE of the model: a block whose
   decoder reports io.EOF ends the scan with Err() = nil and the later blocks undelivered *)
Example C07_err_nil_every_block_needs_no_eof :
  let c := cfg_now 2 [IBlock [1%Z]; IBad eEOF; IBlock [2%Z]] in
  let s := fst (scan_all c 100 10 (init c)) in
  wf_cfg c = true /\ err_value s = 0%Z /\ delivered s = [1%Z] /\ all_objs (c_inp c) = [1%Z; 2%Z].
Proof. vm_compute. repeat split. Qed.

(* a failed Start (empty or truncated input, unknown first block, unsupported feature): no goroutine
   exists, so Close has nothing to wait for ([all_done]), and the recorded start error is and stays
   the scanner's error whatever is called afterwards (Close, cancel, further Scan/Header calls do
   not start the pipeline again): with C07_err_precedence, Err keeps reporting it *)
Theorem C07_start_error_wins : forall c s, wf_cfg c = true -> current c = true -> reach c s ->
  started s = true -> running s = false ->
  s_err s = c_hdr_err c /\ is_err (s_err s) = true /\ all_done s = true.
Proof. exact T_start_error_wins. Qed.
Print Assumptions C07_start_error_wins.

(* ENVIRONMENT ASSUMPTION of section 4 and of C02_no_deadlock / C02_next_returns: every call of the
   underlying io.Reader.Read, of Decode and of the user's Filter* callbacks returns (the reader's read
   step and the worker's decode step are always enabled in the model).  It is needed: in the
   reachable state below Close is waiting and the ONLY step any goroutine can take is the reader's
   readFileBlock, so with a reader that blocks forever in Read (a pipe nobody writes to) Close does
   not return.  The real code behaves so (decode.go Close = cancel(); wg.Wait(); replay: Close still
   blocked after 3 s, returns once the Read returns): known finding "close-while-read-blocked". *)
Theorem C07_close_waits_for_read :
  c_pc close_in_read_state = CClose /\ r_pc close_in_read_state = RRead /\ cancelled close_in_read_state = true /\
  step (cfg_now 1 blocks5) LCo close_in_read_state = None /\
  forall l s' o, is_progress l = true -> step (cfg_now 1 blocks5) l close_in_read_state = Some (s', o) -> l = LRd false.
Proof. exact close_waits_for_read. Qed.
Print Assumptions C07_close_waits_for_read.

(* ---- 4. all goroutines terminate ---- *)
(* [mu] = 3*rm(reader pc) + sum over workers (2*|input queue| + pc weight) + sm(serializer pc).
   From a reachable state in which the internal context is cancelled, along ANY continuation — any
   interleaving with the consumer, further API calls, any select resolution — the pipeline
   goroutines take at most mu s more steps in total (a bound that does not involve the consumer,
   the ordered queue or the rest of the input): reader <= 3, serializer <= 3, each worker <= 2 per
   queued block + 2. *)
Theorem C07_steps_after_cancel_bounded : forall c sched s, wf_cfg c = true -> current c = true ->
  reach c s -> cancelled s = true -> ptaken c sched s + mu (fst (run c sched s)) <= mu s.
Proof. exact T_steps_after_cancel_bounded. Qed.
Print Assumptions C07_steps_after_cancel_bounded.

(* while one of them is not done, one of them has an enabled step (no help from the consumer) *)
Theorem C07_cancel_progress : forall c s, wf_cfg c = true -> reach c s -> running s = true ->
  cancelled s = true -> all_done s = false ->
  exists l s' o, is_pipeline l = true /\ step c l s = Some (s', o).
Proof. exact T_cancel_progress. Qed.
Print Assumptions C07_cancel_progress.

(* hence all n + 2 goroutines reach Done (and the wg.Wait of Close returns, C02_no_deadlock) *)
Theorem C07_goroutines_terminate : forall c s, wf_cfg c = true -> current c = true ->
  reach c s -> running s = true -> cancelled s = true ->
  exists sched, all_done (fst (run c sched s)) = true.
Proof. exact T_goroutines_can_finish. Qed.
Print Assumptions C07_goroutines_terminate.

(* FALSE for the original Next/serializer when another goroutine cancels while Scan is blocked:
   Scan returns false, Err() returns nil, one of two objects was delivered.  Replayed on the real
   code by harness/cmd/c07 (mode 1 histories); fixed in 1677bc6. *)
Theorem C07_err_lost_refuted :
  exists c sched, wf_cfg c = true /\ c_nextctx c = false /\
    let s := fst (run c sched (init c)) in
    err_value s = 0%Z /\ pcancelled s = true /\ delivered s <> expected (c_inp c).
Proof. exists cfg_lost, sched_lost. vm_compute. repeat split; discriminate. Qed.
Print Assumptions C07_err_lost_refuted.

Example C07_err_kept_now :
  let s := fst lost_run_now in err_value s = eCtx /\ snd lost_run_now = [OScan true 1%Z; OScan false 0%Z; OErr eCtx].
Proof. vm_compute. split; reflexivity. Qed.

(* per goroutine (Pipeline/ProofsTerm.v): after the cancellation each goroutine takes a bounded
   number of ITS OWN steps along any continuation, independent of n and of the consumer: reader
   <= 3, serializer <= 3, worker i <= 2 per block queued for it + 4 *)
Theorem C07_reader_steps_after_cancel : forall c sched s, wf_cfg c = true -> current c = true ->
  reach c s -> cancelled s = true -> taken c is_rd sched s <= 3.
Proof. exact T_reader_steps_after_cancel. Qed.
Print Assumptions C07_reader_steps_after_cancel.

Theorem C07_serializer_steps_after_cancel : forall c sched s, wf_cfg c = true -> current c = true ->
  reach c s -> cancelled s = true -> taken c is_se sched s <= 3.
Proof. exact T_serializer_steps_after_cancel. Qed.
Print Assumptions C07_serializer_steps_after_cancel.

Theorem C07_worker_steps_after_cancel : forall c i sched s, wf_cfg c = true -> current c = true ->
  reach c s -> cancelled s = true ->
  taken c (is_wk i) sched s <= 2 * length (w_in (getw i (ws s))) + 4.
Proof. exact T_worker_steps_after_cancel. Qed.
Print Assumptions C07_worker_steps_after_cancel.

(* EVERY maximal continuation (no pipeline step enabled any more) ends with all goroutines Done *)
Theorem C07_quiescent_all_done : forall c sched s, wf_cfg c = true -> current c = true ->
  reach c s -> running s = true -> cancelled s = true ->
  quiescent c (fst (run c sched s)) -> all_done (fst (run c sched s)) = true.
Proof. exact T_quiescent_all_done. Qed.
Print Assumptions C07_quiescent_all_done.

(* ---- XML scanner ---- *)
Theorem C07_xml_close_scan_false : forall a x h,
  (a = CCloseCall \/ a = CCancel \/ a = CCancel3) ->
  forallb (fun o => negb (ProofsXml.scan_true o)) (concat (snd (xrun h (fst (xstep a x))))) = true.
Proof. exact xml_stop_scan_false. Qed.
Print Assumptions C07_xml_close_scan_false.

Theorem C07_xml_err_nil_only_complete : forall objs h,
  let x := fst (xrun h (xinit objs eEOF)) in
  x_err_value x = 0%Z ->
  (x_err x = eEOF /\ x_delivered x = objs) \/ (x_err x = 0%Z /\ x_closed x = false /\ x_ctx x = false).
Proof. exact xml_err_nil_only_complete. Qed.
Print Assumptions C07_xml_err_nil_only_complete.

(* "without consuming the rest of the input" for the XML scanner, at the granularity of TOP-LEVEL
   tokens: however a cancellation from another goroutine interleaves with the Scan loop (the
   context is tested before every decoder.Token()), at most one further top-level token is read
   after the context is cancelled; if that token starts an object element, Token() is followed by
   DecodeElement of that WHOLE element (one [XObj]/[XBad] step of the machine, arbitrarily many
   bytes): the bound is "one more top-level token or one more whole object", not a byte bound *)
Theorem C07_xml_bounded_read_ahead : forall sched toks, xt_tac (fst (xtrun false sched (xtinit toks))) <= 1.
Proof. exact xml_bounded_read_ahead. Qed.
Print Assumptions C07_xml_bounded_read_ahead.

(* FALSE for a scanner that tests the context once per Scan call: it reads on through a run of
   tokens that yield no object to the next object or the end of input (5 tokens here, then EOF is
   recorded and Err() is nil) *)
Theorem C07_xml_bounded_read_ahead_percall_refuted :
  xt_tac (fst (xtrun true xt_witness_sched (xtinit xt_witness_toks))) = 5 /\
  snd (xtrun true xt_witness_sched (xtinit xt_witness_toks)) = [OScan false 0%Z; OErr 0%Z].
Proof. exact xml_bounded_read_ahead_percall_refuted. Qed.
Print Assumptions C07_xml_bounded_read_ahead_percall_refuted.

(* the token machine under concurrent cancellation (XBad = an element whose decoding fails) *)
Theorem C07_xml_token_prefix : forall toks sched, xt_wf toks = true ->
  exists t, xt_delivered (fst (xtrun false sched (xtinit toks))) ++ t = xt_expected toks.
Proof. exact xml_token_prefix. Qed.
Print Assumptions C07_xml_token_prefix.

Theorem C07_xml_token_err_nil_only_complete : forall toks sched, xt_wf toks = true ->
  let x := fst (xtrun false sched (xtinit toks)) in
  xt_err_value x = 0%Z ->
  (xt_err x = eEOF /\ xt_final toks = eEOF /\ xt_delivered x = xt_expected toks) \/
  (xt_err x = 0%Z /\ xt_closed x = false /\ xt_ctx x = false).
Proof. exact xml_token_err_nil_only_complete. Qed.
Print Assumptions C07_xml_token_err_nil_only_complete.

Theorem C07_xml_token_scan_after_stop : forall x x1 o1 x2 o2, xt_ctx x = true ->
  xtstep false (XLCall CScan) x = Some (x1, o1) ->
  (o1 = [OScan false 0%Z] /\ xt_pc x1 = XIdle) \/
  (o1 = [] /\ (xtstep false XLStep x1 = Some (x2, o2) -> o2 = [OScan false 0%Z] /\ xt_pc x2 = XIdle)).
Proof. exact xml_token_scan_after_stop. Qed.
Print Assumptions C07_xml_token_scan_after_stop.

(* the remaining Close / context clauses for the XML scanner on the token machine (every
   interleaving of Scan's loop with a cancellation from another goroutine) *)
Theorem C07_xml_token_stop_permanent : forall l x x' o, xtstep false l x = Some (x', o) ->
  (xt_ctx x = true -> xt_ctx x' = true) /\ (xt_closed x = true -> xt_closed x' = true).
Proof. exact xt_stop_permanent. Qed.
Print Assumptions C07_xml_token_stop_permanent.

Theorem C07_xml_token_err_precedence : forall x,
  (xt_err x <> 0%Z -> xt_err x <> eEOF -> xt_err_value x = xt_err x) /\
  (xt_err x = eEOF -> xt_err_value x = 0%Z) /\
  (xt_err x = 0%Z -> xt_closed x = true -> xt_err_value x = eClosed) /\
  (xt_err x = 0%Z -> xt_closed x = false -> xt_ctx x = true -> xt_err_value x = eCtx) /\
  (xt_err x = 0%Z -> xt_closed x = false -> xt_ctx x = false -> xt_err_value x = 0%Z).
Proof. exact xt_err_precedence. Qed.
Print Assumptions C07_xml_token_err_precedence.

Theorem C07_xml_token_recorded_error_sticky : forall toks sched l x' o, xt_wf toks = true ->
  let x := fst (xtrun false sched (xtinit toks)) in
  xtstep false l x = Some (x', o) -> xt_err x <> 0%Z -> xt_err x' = xt_err x.
Proof. exact xt_recorded_error_sticky. Qed.
Print Assumptions C07_xml_token_recorded_error_sticky.

(* Close / cancel by the scanning goroutine leaves the machine stopped, and from a stopped state no
   Scan ever succeeds again whatever the schedule *)
Theorem C07_xml_token_close_stops : forall x x' o a, (a = CCloseCall \/ a = CCancel) ->
  xtstep false (XLCall a) x = Some (x', o) -> xt_stopped x'.
Proof. exact xt_close_stops. Qed.
Print Assumptions C07_xml_token_close_stops.

Theorem C07_xml_token_no_true_scan_after_stop : forall sched x, xt_stopped x ->
  forallb (fun y => negb (ProofsXml.scan_true y)) (snd (xtrun false sched x)) = true.
Proof. exact xt_no_true_scan_after_stop. Qed.
Print Assumptions C07_xml_token_no_true_scan_after_stop.

(* the Scan loop run to completion without interference has the outcome of the call-level machine:
   the next object of the document, or the document's final error *)
Theorem C07_xml_scan_loop_outcome : forall toks k t, xt_pc t = XCheck -> xt_ctx t = false -> xt_toks t = toks ->
  2 * length toks + 2 <= k ->
  scan_outcome toks t (fst (xtrun false (repeat XLStep k) t)) (snd (xtrun false (repeat XLStep k) t)).
Proof. exact xt_scan_loop. Qed.
Print Assumptions C07_xml_scan_loop_outcome.

(* tightness of C07_bounded_read_ahead: one read after the cancel is reachable *)
Example C07_rac_one_reachable :
  rac (fst (run (cfg_now 1 blocks5) [LApi CScan; LRd false; LApi CCancel3; LRd false] (init (cfg_now 1 blocks5)))) = 1.
Proof. vm_compute. reflexivity. Qed.

(* the two loop conditions on the Close-first schedule: repaired 0 reads after the cancel, original 6 *)
Example C07_witness_rac_now : rac_and = 0 /\ rac_or = 6.
Proof. vm_compute. split; reflexivity. Qed.
