(* Properties/C13.v — Annotating a change yields the exact old/new diff for every element.

   ONLY statements, each closed by a lemma of C13/Proofs.v, Print Assumptions, and non-vacuity
   examples.  The model (C13/Model.v) transcribes annotate/change.go (Change, addUpdate,
   checkErr, findPrevious{Node,Way,Relation}) over an abstract HistoryDatasourcer; it is tied to
   /repo by the correspondence harness (harness/cmd/c13) on every run.
   All statements are for arbitrary changes and arbitrary histories (any order, gaps, later
   versions, duplicates, empty, missing), for both values of the ignore-missing option;
   the only hypothesis is that history versions are non-negative. *)
From Coq Require Import ZArith List Bool Lia.
From Verif Require Import C13.Model C13.Spec C13.Proofs C13.GenSupport C13.GenOk.
From VerifGen Require Import GenChange.
Import ListNotations.
Open Scope Z_scope.

(* 1. the predecessor search: the entry returned is in the history, its version is below the
      element's own and no entry below the element's version is above it; nothing is returned
      exactly when the history has no entry below (in particular when it is empty). *)
Theorem C13_find_previous_is_max_below : forall ver hist,
  versions_nonneg hist = true ->
  match find_previous ver hist with
  | Some o => is_prev ver hist o
  | None => no_prev ver hist
  end.
Proof. exact find_previous_spec. Qed.
Print Assumptions C13_find_previous_is_max_below.

Theorem C13_find_previous_none_iff : forall ver hist,
  versions_nonneg hist = true ->
  (find_previous ver hist = None <-> no_prev ver hist).
Proof.
  intros ver hist Hnn. pose proof (find_previous_spec ver hist Hnn) as H.
  destruct (find_previous ver hist) as [o|]; split; intro Hx; try discriminate; auto.
  exfalso. exact (is_prev_not_no_prev _ _ _ H Hx).
Qed.
Print Assumptions C13_find_previous_none_iff.

(* ... and it is the FIRST entry carrying the greatest version below (two-pass reference) *)
Theorem C13_find_previous_first_of_max : forall ver hist,
  versions_nonneg hist = true -> find_previous ver hist = spec_prev ver hist.
Proof. exact find_previous_two_pass. Qed.
Print Assumptions C13_find_previous_first_of_max.

(* the hypothesis is needed (a domain witness, not a finding: OSM versions start at 1): the scan
   starts from max = -1, so a negative version is never found *)
Theorem C13_negative_version_hypothesis_needed : exists ver hist o,
  is_prev ver hist o /\ find_previous ver hist = None.
Proof.
  exists 1, [mkElem KNode 5 (-1) true 9], (mkElem KNode 5 (-1) true 9).
  split; [|reflexivity]. split; [left; reflexivity|]. split; [cbn; lia|].
  intros h [Hh|[]] _. subst h. cbn. lia.
Qed.

(* the per-case oracle (C13/Check.v, judgement 2) decides with the boolean forms no_prevb /
   is_prevb: they reflect the predicates of the theorems (is_prevb identifies the old element by
   version, payload and visibility, i.e. by everything the harness observes) *)
Theorem C13_oracle_reflects : forall ver hist,
  (no_prevb ver hist = true <-> no_prev ver hist) /\
  (forall v p vis, is_prevb ver hist v p vis = true <->
                   exists o, In o hist /\ e_ver o = v /\ e_pay o = p /\ e_vis o = vis /\ is_prev ver hist o).
Proof. intros ver hist. split; [apply no_prevb_iff|intros; apply is_prevb_iff]. Qed.
Print Assumptions C13_oracle_reflects.

(* 2. the actions.  On success there is exactly one action per changed element, in the order
      create, modify, delete and node, way, relation within each (Forall2 against
      [elems_in_order]); each action is what the property says ([outcome_ok]):
        created element            -> create action, element marked visible
        modified / deleted element -> old = a predecessor in the sense of [is_prev],
                                      new = the element, visible for modify, not visible for delete
        no history / no predecessor, ignore-missing set -> create action, element marked visible.
      On failure the error is the one of the FIRST element (in that order) that has no history or
      no predecessor without ignore-missing (NoVisibleChildError carrying that element's kind and
      id) or whose data source lookup failed otherwise (that error unchanged, whatever the
      option), and every element before it had an admissible outcome. *)
Theorem C13_change_actions : forall nft ds ign c,
  ds_nonneg ds ->
  match annotate_change nft ds ign c with
  | ROk acts => Forall2 (outcome_ok ds ign) (elems_in_order c) acts
  | RErr err => exists pre se post acts,
                  elems_in_order c = pre ++ se :: post /\
                  Forall2 (outcome_ok ds ign) pre acts /\ outcome_err ds ign se err
  end.
Proof. exact annotate_change_spec. Qed.
Print Assumptions C13_change_actions.

Corollary C13_one_action_per_element : forall nft ds ign c acts,
  ds_nonneg ds -> annotate_change nft ds ign c = ROk acts ->
  length acts = length (elems_in_order c).
Proof.
  intros nft ds ign c acts Hds H. pose proof (annotate_change_spec nft ds ign c Hds) as Hs.
  rewrite H in Hs. symmetry. clear H. induction Hs; cbn; congruence.
Qed.
Print Assumptions C13_one_action_per_element.

(* the same as an equation with the executable specification (one outcome per element, first
   error wins) *)
Theorem C13_change_eq_spec : forall nft ds ign c,
  ds_nonneg ds -> annotate_change nft ds ign c = spec_change ds ign c.
Proof. exact annotate_change_eq_spec. Qed.
Print Assumptions C13_change_eq_spec.

(* with ignore-missing the only possible failure is a data source error other than not-found *)
Corollary C13_ignore_missing_never_typed_error : forall nft ds c k id,
  ds_nonneg ds -> annotate_change nft ds true c <> RErr (ENoVisibleChild k id).
Proof.
  intros nft ds c k id Hds H. pose proof (annotate_change_spec nft ds true c Hds) as Hs. rewrite H in Hs.
  destruct Hs as (pre & se & post & acts & _ & _ & Hne & Herr). cbn zeta in Herr.
  destruct (ds (e_kind (snd se)) (e_id (snd se))).
  - destruct Herr as (_ & Habs & _). discriminate.
  - destruct Herr as (Habs & _). discriminate.
  - discriminate.
Qed.
Print Assumptions C13_ignore_missing_never_typed_error.

(* 3. what ds.NotFound answers for the NoVisibleChildError made by findPrevious itself (the
      parameter nft; the HistoryDatasourcer interface does not say) is irrelevant *)
Theorem C13_not_found_irrelevant : forall nft ds ign c,
  ds_nonneg ds -> annotate_change nft ds ign c = annotate_change false ds ign c.
Proof.
  intros nft ds ign c H. rewrite (annotate_change_eq_spec nft ds ign c H).
  symmetry. exact (annotate_change_eq_spec false ds ign c H).
Qed.
Print Assumptions C13_not_found_irrelevant.

(* 4. tie by translation: findPreviousNode/Way/Relation and checkErr as regenerated from
      annotate/change.go on every run (VerifGen.GenChange) agree with the model: the three
      per-kind functions are one function; without a data source error it returns what
      find_previous_elem returns (hist[loc] for the model's predecessor, nil under
      ignore-missing, the typed error otherwise); a data source error is passed on unchanged;
      checkErr has the model's decision structure. *)
Theorem C13_generated_code_is_model :
  gen_find_previous_way = gen_find_previous_node /\
  gen_find_previous_relation = gen_find_previous_node /\
  (forall h e ign, interp_fpg h e (gen_find_previous_node h 0 e ign)
                   = Some (find_previous_elem (fun _ _ => LOk h) ign e)) /\
  (forall h c e ign, c <> 0 -> gen_find_previous_node h c e ign = FPG_DsErr c) /\
  (forall nft ign r e,
     check_err nft ign r e =
     match gen_check_err (fp_err_nil r) (fp_not_found nft r) ign with
     | CE_Nil => None
     | CE_NoVisible => Some (ENoVisibleChild (e_kind e) (e_id e))
     | CE_Same => match r with
                  | FNoVisible k id => Some (ENoVisibleChild k id)
                  | FDsOther c => Some (EOther c)
                  | _ => None
                  end
     end).
Proof.
  split; [exact gen_find_previous_way_same|]. split; [exact gen_find_previous_relation_same|].
  split; [exact gen_find_previous_node_ok|]. split; [exact gen_find_previous_node_err|exact gen_check_err_ok].
Qed.
Print Assumptions C13_generated_code_is_model.

(* 5. ... and so are addUpdate and Change themselves (wave 4): the whole C13 model is
      regenerated from annotate/change.go.  A *osm.Change is a [gchange] (three optional
      sections; a nil section behaves as an empty one: [change_of]); the data source and what
      its NotFound says about the typed error are parameters; the option functions are applied
      by the caller (ign is their effect on IgnoreMissingChildren). *)
Theorem C13_generated_change_is_model :
  (forall nft ds acts o ty ign,
     gen_add_update nft ds acts o ty ign = add_update nft ds ign ty (sec_of o) acts) /\
  (forall nft ds ign g, gen_change nft ds ign g = annotate_change nft ds ign (change_of g)).
Proof. split; [exact gen_add_update_ok|exact gen_change_ok]. Qed.
Print Assumptions C13_generated_change_is_model.

(* ---------- non-vacuity ---------- *)
Definition ex_hist := [mkElem KNode 3 1 true 21; mkElem KNode 3 3 true 22; mkElem KNode 3 2 false 23;
                       mkElem KNode 3 5 true 24; mkElem KNode 3 4 true 25].
Definition ex_ds := ds_of [(KNode, 3, LOk ex_hist); (KRel, 4, LOk [mkElem KRel 4 1 true 26]);
                           (KWay, 5, LOk [mkElem KWay 5 7 true 27]); (KWay, 6, LOther 9)].
Definition ex_change :=
  mkChange (mkSection [mkElem KNode 1 1 false 11] [mkElem KWay 2 1 false 12] [])
           (mkSection [mkElem KNode 3 4 false 13] [] [mkElem KRel 4 2 true 14])
           (mkSection [] [mkElem KWay 5 3 true 15] []).

Example C13_ex_nonneg : versions_nonneg ex_hist = true /\ ds_nonneg ex_ds.
Proof.
  split; [reflexivity|]. intros k id h H. unfold ex_ds in H. cbn in H.
  repeat match type of H with
         | (if ?b then _ else _) = _ => destruct b; [inversion H; subst; reflexivity|]
         end; discriminate.
Qed.

Example C13_ex_generated :
  gen_find_previous_node ex_hist 0 (mkElem KNode 3 4 false 13) false = FPG_At 1 /\
  gen_find_previous_node ex_hist 0 (mkElem KNode 3 1 false 13) false = FPG_NoVisible /\
  gen_find_previous_node ex_hist 0 (mkElem KNode 3 1 false 13) true = FPG_Nil /\
  gen_find_previous_node [] 7 (mkElem KNode 3 1 false 13) true = FPG_DsErr 7 /\
  gen_check_err false true false = CE_NoVisible /\ gen_check_err false false true = CE_Same.
Proof. repeat split; vm_compute; reflexivity. Qed.

Example C13_ex_find_previous :
  find_previous 4 ex_hist = Some (mkElem KNode 3 3 true 22) /\ find_previous 1 ex_hist = None /\
  find_previous 9 ex_hist = Some (mkElem KNode 3 5 true 24).
Proof. repeat split; vm_compute; reflexivity. Qed.

Example C13_ex_change_ignore :
  annotate_change false ex_ds true ex_change =
  ROk [mkAction TCreate (Some (mkElem KNode 1 1 true 11)) None None;
       mkAction TCreate (Some (mkElem KWay 2 1 true 12)) None None;
       mkAction TModify None (Some (mkElem KNode 3 3 true 22)) (Some (mkElem KNode 3 4 true 13));
       mkAction TModify None (Some (mkElem KRel 4 1 true 26)) (Some (mkElem KRel 4 2 true 14));
       mkAction TCreate (Some (mkElem KWay 5 3 true 15)) None None].
Proof. vm_compute. reflexivity. Qed.

Example C13_ex_change_error :
  annotate_change false ex_ds false ex_change = RErr (ENoVisibleChild KWay 5) /\
  annotate_change false ex_ds true (mkChange (mkSection [] [] []) (mkSection [] [mkElem KWay 6 2 true 1] []) (mkSection [] [] []))
  = RErr (EOther 9).
Proof. split; vm_compute; reflexivity. Qed.
