(* Properties/C13.v — placeholder, filled below *)
From Verif Require Import C13.Model C13.Spec.
