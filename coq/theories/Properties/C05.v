(* Properties/C05.v — OSM JSON output is osmjson-shaped and round-trips up to tag order.

   ONLY statements, each closed by [exact] of a lemma of C05/Proofs*.v / Codec.v, Print
   Assumptions, and non-vacuity Examples.  The struct schemas (t_Node, t_Way, ... of
   VerifGen.GenJsonTags) are regenerated from /repo's source on every run; the hand-modelled
   methods are tied by C05/GenOk.v and by correspondence (harness/cmd/c05).

   [mo] is the order in which the codec in use emits the entries of a Go map (encoding/json:
   sorted; others: any permutation), so every theorem holds for every codec configuration.
   Equivalence (Spec.v): osm_equiv a b := canon_osm a = canon_osm b, where canon sorts tags by
   key and reduces way nodes to their ids (version/changeset/lat/lon of a way node have no
   place in osmjson). *)
From Coq Require Import ZArith List String Ascii Bool Permutation.
From Verif Require Import C05.Json C05.Schema C05.Model C05.Fmt C05.Osm C05.Spec C05.SortTags
     C05.Fields C05.ProofsGeneric C05.Resolve C05.ProofsOsm C05.ProofsDoc C05.ProofsChange C05.ProofsShape C05.ProofsLegacy C05.Codec C05.CodecGeneric.
From VerifGen Require Import GenJsonTags.
Import ListNotations.
Open Scope string_scope.
Open Scope Z_scope.

(* 1. json_roundtrip: unmarshalling the output yields the same elements up to tag order and up
      to the way-node annotations; in particular the library's own output is decodable
      (own_output_decodable), for every well-formed OSM value with any combination of
      optional fields, every element kind, with or without Bounds. *)
Theorem C05_json_roundtrip : forall mo, (forall l, Permutation (mo l) l) ->
  forall o, wf_osm o = true ->
  exists o', osm_unmarshal (osm_marshal mo o) = Ok o' /\ osm_equiv o' o.
Proof. exact osm_roundtrip. Qed.
Print Assumptions C05_json_roundtrip.

Theorem C05_own_output_decodable : forall mo, (forall l, Permutation (mo l) l) ->
  forall o, wf_osm o = true -> exists o', osm_unmarshal (osm_marshal mo o) = Ok o'.
Proof. exact own_output_decodable. Qed.
Print Assumptions C05_own_output_decodable.

(* the same for a single value of any type of the schema (elements marshalled on their own,
   members, updates, discussions, ...): schema-generic, by induction on the type descriptor *)
Theorem C05_value_roundtrip : forall mo, (forall l, Permutation (mo l) l) ->
  forall t, rt_ok t = true -> forall v, wf t v = true ->
  exists v', dec t (enc mo t v) = Ok v' /\ equiv t v' v.
Proof. exact enc_dec. Qed.
Print Assumptions C05_value_roundtrip.

Theorem C05_generated_schemas_ok :
  rt_ok t_Node && rt_ok t_Way && rt_ok t_Relation && rt_ok t_Changeset && rt_ok t_Note
  && rt_ok t_User && rt_ok t_Bounds = true.
Proof. exact schemas_rt_ok. Qed.

(* "up to tag order" made precise: tag lists with distinct keys that are permutations of each
   other have the same canonical form *)
Theorem C05_tag_order_irrelevant : forall (l l' : list (string * string)),
  Permutation l l' -> NoDup (map kc l) -> sort_tags l = sort_tags l'.
Proof. exact sort_tags_of_perm. Qed.
Print Assumptions C05_tag_order_irrelevant.

(* 2. version_number_or_string + absent_stays_empty: for EVERY document object that decodes
      (any keys, any order, unknown keys present), the header fields are exactly what the
      document says; absent (or null) fields are the empty string, never placeholder text.
      The specification side (Spec.version_spec, string_field_spec) reads the document with its
      own case-insensitive key comparison (a 26-entry table), not with the model's resolution;
      documents that repeat a header key are outside it (no claim).  The text of a numeric
      version is Spec.number_text = Fmt.fmt_g, a model of fmt's %v tied by correspondence and
      examples only (labelled: not an independent specification of number formatting). *)
Theorem C05_header_of_document : forall kv o, osm_unmarshal (JObj kv) = Ok o ->
  version_spec kv (o_version o)
  /\ string_field_spec kv "generator" (o_generator o) /\ string_field_spec kv "copyright" (o_copyright o)
  /\ string_field_spec kv "attribution" (o_attribution o) /\ string_field_spec kv "license" (o_license o).
Proof. exact header_of_document. Qed.
Print Assumptions C05_header_of_document.

(* 2b. document_elements: an independently written document — the keys of the document object
      and of every element object in ANY ORDER, UNKNOWN KEYS added at both levels (keys that do
      not resolve, exactly or by case, to a field), version/generator/... as the value has them
      — decodes successfully to the elements that were written, up to tag order and way-node
      annotations.  [written_as mo e' e]: e' is such a respelling of the library's encoding e of
      a well-formed element; [doc_entries mo o es']: the header entries of o with es' as the
      elements array.  (Elements keep their order; nested objects — tags, members, bounds — are
      as the library writes them.) *)
Theorem C05_document_elements : forall mo, (forall l, Permutation (mo l) l) ->
  forall o es' dkv', wf_osm o = true ->
  Forall2 (written_as mo) es' (objects mo o) ->
  respelled hdr_names dkv' (doc_entries mo o es') ->
  exists o', osm_unmarshal (JObj dkv') = Ok o' /\ osm_equiv o' o.
Proof. exact document_elements. Qed.
Print Assumptions C05_document_elements.

(* decoding a struct is independent of key order and of unknown keys (any struct type) *)
Theorem C05_key_order_and_unknown_keys : forall fs kv' kv,
  respelled (names fs) kv' kv -> self_resolving (names fs) kv -> NoDup (keys kv) ->
  dec (TStruct fs) (JObj kv') = dec (TStruct fs) (JObj kv).
Proof. exact dec_respelled. Qed.
Print Assumptions C05_key_order_and_unknown_keys.

(* the model's key resolution agrees with the specification's case-insensitive comparison *)
Theorem C05_resolution_is_case_insensitive_match : forall ns n kv,
  NoDup (map fold_case ns) -> In n ns -> entries_f ns n kv = field_values n kv.
Proof. exact entries_f_spec. Qed.

(* 2c. domain boundary (audit C05-3): osm.Tags is a slice and can hold two tags with one key;
      osmjson tags are a JSON object and cannot, nor can an OSM element.  Such values are
      outside the domain ([wf] demands distinct keys for that reason, not because of Go maps);
      the full statement "every Tags value round-trips up to order" is false: *)
Theorem C05_roundtrip_with_duplicate_tag_keys_refuted :
  exists v, wf TTags v = false /\
    exists v', dec TTags (enc std TTags v) = Ok v' /\ canon TTags v' <> canon TTags v.
Proof.
  exists dup_tags. destruct duplicate_tag_keys_collapse as [H1 [_ [H3 H4]]].
  split; [exact H1|]. eexists. split; [exact H3|exact H4].
Qed.
Print Assumptions C05_roundtrip_with_duplicate_tag_keys_refuted.

Definition ex_osm_c : osmv :=
  mkOsm "" "g" "" "" "" None
    [VStruct [VUnit; VInt 1; VFloat 515 1; VFloat 0 0; VStr ""; VInt 0; VBool true; VInt 0; VInt 0;
              VTime zero_time; VList [mk_tag ("b", "y"); mk_tag ("a", "x")]; VNone]] [] [] [] [] [].

(* 2d. osm.Change (change.go: default struct coding, the create/modify/delete blocks going
      through OSM.MarshalJSON / OSM.UnmarshalJSON): round trip for every Change whose blocks are
      well-formed, every codec map order, up to the same equivalence per block *)
Theorem C05_change_roundtrip : forall mo, (forall l, Permutation (mo l) l) ->
  forall c, wf_change c ->
  exists c', change_unmarshal (change_marshal mo c) = Ok c' /\ change_equiv c' c.
Proof. exact change_roundtrip. Qed.
Print Assumptions C05_change_roundtrip.

Example ex_change :
  wf_change (mkChange "0.6" "" "" "" "" (Some ex_osm_c) None (Some empty_osm)) /\
  exists c', change_unmarshal (change_marshal std (mkChange "0.6" "" "" "" "" (Some ex_osm_c) None (Some empty_osm))) = Ok c'
             /\ c_modify c' = None /\ c_delete c' = Some empty_osm.
Proof.
  split.
  - repeat split; intros o E; simpl in E; try discriminate E; injection E as <-; vm_compute; reflexivity.
  - eexists. split; [vm_compute; reflexivity|split; reflexivity].
Qed.

(* 3. json_shape: the output is osmjson — an "elements" array (never null) of objects each
      carrying its type from the osmjson vocabulary, tags a JSON object of strings, way nodes an
      array of integer ids, relation members an array that is never null whose entries have
      type/ref/role (predicate Spec.osmjson_shape, names written independently of /repo), for
      every well-formed OSM value and every codec map order.  The schema conditions it needs
      are computed on the generated struct descriptions. *)
Theorem C05_json_shape : forall mo o, wf_osm o = true -> osmjson_shape (osm_marshal mo o) = true.
Proof. exact json_shape. Qed.
Print Assumptions C05_json_shape.

Theorem C05_element_shape : forall mo nm fs v, elem_schema_ok nm fs = true ->
  wf (TStruct fs) v = true -> element_shape (enc mo (TStruct fs) v) = true.
Proof. exact element_shape_ok. Qed.
Print Assumptions C05_element_shape.

Theorem C05_generated_elem_schemas_ok :
  elem_schema_ok "node" f_Node && elem_schema_ok "way" f_Way && elem_schema_ok "relation" f_Relation
  && elem_schema_ok "changeset" f_Changeset && elem_schema_ok "note" f_Note && elem_schema_ok "user" f_User = true.
Proof. exact generated_elem_schemas_ok. Qed.

(* the three special encodings hold for ALL values, well-formed or not *)
Theorem C05_special_encodings : forall mo,
  (forall l, tags_object (enc mo TTags (VList l)) = true)
  /\ (forall fs l, id_array (enc mo (TWayNodes fs) (VList l)) = true)
  /\ (forall t l, exists js, enc mo (TMembers t) (VList l) = JArr js).
Proof.
  intros mo. split; [exact (tags_is_object mo)|]. split; [exact (waynodes_is_id_array mo)|exact (members_never_null mo)].
Qed.
Print Assumptions C05_special_encodings.

(* 4. codec_independent.  WHAT IS ESTABLISHED: every hand-written (un)marshal helper calls the
      configured codec and nothing else in the package depends on it (GenOk.Codec_entry_points +
      the codec-threaded model below); therefore results can depend on the installed codec only
      through what that codec itself does.  The laws ([lawful]) idealise a codec as one that
      builds the same tree as encoding/json's struct walk, writes text that every codec reads
      back as that tree, and permutes map entries — i.e. tree-identical to encoding/json.  A
      codec that changes VALUES is not lawful and does change results: the configuration the
      package's own documentation advertises (json-iterator with MarshalFloatWith6Digits) rounds
      coordinates to 6 decimals and violates law 1 for 7-decimal OSM coordinates.  No third-party
      codec could be run in this sandbox; the custom codecs exercised are wrappers of
      encoding/json (counting; reformatting with UseNumber).
      Statement: whichever lawful codec writes and whichever reads (laws: every codec
      reads every codec's output as the same tree; map order is a permutation), the results
      are equivalent to the input and to each other.  Codecs are Section variables of
      C05/Codec.v, no axiom. *)
Theorem C05_codec_independent :
  forall (bytes : Type) (sem : bytes -> option json) (c s : codec bytes),
  lawful bytes sem c -> lawful bytes sem s ->
  forall o, wf_osm o = true ->
  exists o1 o2,
    osm_unmarshal_bytes bytes c (osm_marshal_bytes bytes s o) = Ok o1 /\
    osm_unmarshal_bytes bytes s (osm_marshal_bytes bytes c o) = Ok o2 /\
    osm_equiv o1 o /\ osm_equiv o2 o /\ osm_equiv o1 o2.
Proof. exact codec_independent. Qed.
Print Assumptions C05_codec_independent.

(* 4b. the codec threaded through the WHOLE generic encoder and decoder (C05/CodecGeneric.v):
       [enc_c .. c e] is the struct walk done by the enclosing codec e, every hand-written
       MarshalJSON going through the configured codec c (or a byte literal) and being re-read
       by e; [dec_c .. c s e] hands raw bytes to the UnmarshalJSON methods, which parse with
       the codec they call (c; encoding/json s for Tags).  Under the laws they ARE the
       tree-level functions, for every type and value — and so are the containers with every
       marshalJSON/unmarshalJSON/findType call spelled out. *)
Theorem C05_encoder_through_codec :
  forall (bytes : Type) (sem : bytes -> option json) (lit : json -> bytes),
  (forall t, sem (lit t) = Some t) ->
  forall c : codec bytes, lawful bytes sem c ->
  forall t (e : codec bytes) v, lawful bytes sem e ->
  enc_c bytes lit c e t v = Some (enc (c_mapord c) t v).
Proof. exact enc_c_ok. Qed.
Print Assumptions C05_encoder_through_codec.

Theorem C05_decoder_through_codec :
  forall (bytes : Type) (sem : bytes -> option json) (c s : codec bytes),
  lawful bytes sem c -> lawful bytes sem s ->
  forall t (e : codec bytes) j, lawful bytes sem e -> dec_c bytes c s e t j = dec t j.
Proof. exact dec_c_ok. Qed.
Print Assumptions C05_decoder_through_codec.

Theorem C05_containers_through_codec :
  forall (bytes : Type) (sem : bytes -> option json) (lit : json -> bytes),
  (forall t, sem (lit t) = Some t) ->
  forall c s : codec bytes, lawful bytes sem c -> lawful bytes sem s ->
  forall (top : codec bytes) o, lawful bytes sem top -> wf_osm o = true ->
  exists tree o',
    osm_marshal_c bytes lit c top o = Some tree /\
    osm_unmarshal_c bytes c s (c_ser top tree) = Ok o' /\ osm_equiv o' o.
Proof. exact roundtrip_all_through_codec. Qed.
Print Assumptions C05_containers_through_codec.

(* 5. the unchanged tree (/repo 8c4814b) violated the property: refutations over the model of
      the code as found, replayed on the implementation, repaired by /repo f6e3a8f, bbea2b1 *)
Theorem C05_absent_stays_empty_legacy_refuted :
  exists doc kv o, doc = JObj kv /\ lookup "version" kv = None /\
    osm_unmarshal_legacy doc = Ok o /\ o_version o = "<nil>".
Proof.
  exists doc_without_version, [("elements", JArr [])].
  destruct absent_version_legacy as [H [o [H1 H2]]]. exists o. repeat split; assumption.
Qed.
Print Assumptions C05_absent_stays_empty_legacy_refuted.

Theorem C05_own_output_decodable_legacy_refuted :
  exists o, wf_osm o = true /\
    osmjson_shape (osm_marshal_legacy std o) = false /\
    osm_unmarshal_legacy (osm_marshal_legacy std o) = Err.
Proof. exists osm_with_bounds. exact own_output_legacy. Qed.
Print Assumptions C05_own_output_decodable_legacy_refuted.

(* ---- non-vacuity ---- *)
Definition ex_node : val :=
  VStruct [VUnit; VInt 1; VFloat 515 1; VFloat (-1278) 4; VStr "u"; VInt 7; VBool true; VInt 2; VInt 9;
           VTime "2012-09-12T09:30:03Z";
           VList [mk_tag ("name", "x"); mk_tag ("highway", "y")]; VSome (VTime "2012-09-12T09:30:04.5Z")].
Definition ex_way : val :=
  VStruct [VUnit; VInt 2; VStr ""; VInt 0; VBool false; VInt 0; VInt 0; VTime zero_time;
           VList [VStruct [VInt 1; VInt 3; VInt 4; VFloat 15 1; VFloat 25 1]]; VList []; VNone; VList []; VNone].
Definition ex_osm : osmv :=
  mkOsm "" "gen" "" "" "" (Some (VStruct [VFloat 1 0; VFloat 2 0; VFloat 3 0; VFloat 4 0]))
        [ex_node] [ex_way] [] [] [] [].

Example ex_wf : wf_osm ex_osm = true.
Proof. vm_compute. reflexivity. Qed.
Example ex_shape : osmjson_shape (osm_marshal std ex_osm) = true.
Proof. vm_compute. reflexivity. Qed.
(* the round trip really reorders tags and erases the way-node annotations *)
Example ex_roundtrip :
  exists o', osm_unmarshal (osm_marshal std ex_osm) = Ok o' /\ o' <> ex_osm /\ osm_equivb o' ex_osm = true.
Proof. eexists. split; [vm_compute; reflexivity|]. split; [discriminate|vm_compute; reflexivity]. Qed.
Example ex_header :
  exists o, osm_unmarshal (JObj [("zzz", JNum 1 0); ("version", JNum 6 1); ("elements", JArr [])]) = Ok o
            /\ o_version o = "0.6" /\ o_generator o = "".
Proof. eexists. split; [vm_compute; reflexivity|split; reflexivity]. Qed.

(* keys are matched the way encoding/json does: exactly or up to ASCII case, the last entry
   wins (so Overpass's lowercase per-element bounds reach the untagged Bounds struct) *)
Example ex_case_folding :
  exists o w, osm_unmarshal
      (JObj [("version", JNull); ("Version", JStr "0.6"); ("ELEMENTS",
         JArr [JObj [("Id", JNum 9 0); ("TYPE", JStr "way"); ("id", JNum 7 0);
                     ("bounds", JObj [("minlat", JNum 1 0); ("minlon", JNum 2 0);
                                      ("maxlat", JNum 3 0); ("maxlon", JNum 4 0)])]])]) = Ok o
    /\ o_version o = "0.6" /\ o_ways o = [w]
    /\ nth_error (match w with VStruct l => l | _ => [] end) 1 = Some (VInt 7)
    /\ nth_error (match w with VStruct l => l | _ => [] end) 12
       = Some (VSome (VStruct [VFloat 1 0; VFloat 3 0; VFloat 2 0; VFloat 4 0])).
Proof. eexists. eexists. split; [vm_compute; reflexivity|]. repeat split; reflexivity. Qed.

(* a document in the sense of C05_document_elements: keys shuffled, unknown keys at both levels *)
Example ex_document :
  exists o, osm_unmarshal
    (JObj [("osm3s", JObj [("copyright", JStr "x")]);
           ("elements", JArr [JObj [("lon", JNum 25 1); ("center", JNull); ("id", JNum 7 0);
                                    ("tags", JObj [("b", JStr "2"); ("a", JStr "1")]);
                                    ("type", JStr "node"); ("lat", JNum 15 1)]]);
           ("generator", JStr "gen")]) = Ok o
    /\ o_generator o = "gen" /\ o_version o = ""
    /\ map (canon t_Node) (o_nodes o)
       = [canon t_Node (VStruct [VUnit; VInt 7; VFloat 15 1; VFloat 25 1; VStr ""; VInt 0; VBool false; VInt 0;
                                 VInt 0; VTime zero_time; VList [mk_tag ("a", "1"); mk_tag ("b", "2")]; VNone])].
Proof. eexists. split; [vm_compute; reflexivity|]. repeat split; vm_compute; reflexivity. Qed.
