(* Properties/C05.v — OSM JSON output is osmjson-shaped and round-trips up to tag order.
   ONLY statements closed by [exact] of lemmas of C05/Proofs*.v + Print Assumptions.
   (first version: the refutation witnesses of the unchanged tree; the positive theorems are
   added as they are proved) *)
From Coq Require Import ZArith List String Ascii Bool.
From Verif Require Import C05.Json C05.Schema C05.Model C05.Fmt C05.Osm C05.Spec C05.ProofsLegacy.
From VerifGen Require Import GenJsonTags.
Import ListNotations.
Open Scope string_scope.
Open Scope Z_scope.

(* absent_stays_empty was FALSE of the code as found (/repo 8c4814b, osm.go:309): *)
Theorem C05_absent_stays_empty_legacy_refuted :
  exists doc kv o, doc = JObj kv /\ lookup "version" kv = None /\
    osm_unmarshal_legacy doc = Ok o /\ o_version o = "<nil>".
Proof.
  exists doc_without_version, [("elements", JArr [])].
  destruct absent_version_legacy as [H [o [H1 H2]]]. exists o. repeat split; assumption.
Qed.
Print Assumptions C05_absent_stays_empty_legacy_refuted.

(* own_output_decodable / json_shape were FALSE of the code as found (osm.go:187, 288): *)
Theorem C05_own_output_decodable_legacy_refuted :
  exists o, wf_osm o = true /\
    osmjson_shape (osm_marshal_legacy std o) = false /\
    osm_unmarshal_legacy (osm_marshal_legacy std o) = Err.
Proof. exists osm_with_bounds. exact own_output_legacy. Qed.
Print Assumptions C05_own_output_decodable_legacy_refuted.
