(* C16/Check.v — correspondence + property oracle for one harness case (executable only).

   Points travel as ONE raw token  x*8192 + y  (0 <= x, y < 8192).
   Case layouts (first token = tag, zigzag encoded by c.Int):

   1 SCENE : has_spec
             [ polygons : list (outer : line, holes : list line)          ground truth
               pieces   : list (ring start edges rev)                     one per member ]
             nodes   : list (id, pt)                                      o.Nodes, in order
             ways    : list (id, list node-id)                            o.Ways, in order
             members : list (is_way ref role)                             role 0 outer 1 inner 2 other
             runs    : list (src incl orients mask nfeat kind polys tainted)   osmgeojson.Convert
                 src 0: coordinates from node objects; 1: from annotated way nodes, no node objects;
                 2: both; 3: node objects present and way node k (all ways, in order) annotated
                 iff mask[k] (mixed sources inside one way).  orients: Member.Orientation given.  kind 0 no relation feature,
                 1 Polygon, 2 MultiPolygon.
             annots  : list (orients_in ok orients_out)                   annotate.Relations
   2 JOIN  : segments : list (index orient rev line)
             chains   : list (list (index orient rev line))               VerifJoin
             per chain: Ring(CCW) Ring(CW) Orientation()
   3 CONTAINS : outer r observed                                          polygonContains
   4 ADDMP : incl mp ring observed-mp                                     addToMultiPolygon
   5 MULTI : nodes ways                                                   shared by all relations
             relations : list (polygons pieces members)                   each with its own ground truth
             runs      : list (src incl nfeat, per relation: orients kind polys tainted)
                                                                          ONE Convert call with all relations

   codes: 1 model <> implementation; 2 property oracle fails on the observation;
          3 the input the harness fed is not the one the spec describes (cut/orientation/scene
            hypotheses); 0 case does not parse. *)
From Coq Require Import ZArith List Bool.
From Verif Require Import Base.Wire Geo.Model C16.Spec.
Import ListNotations.
Open Scope Z_scope.
Open Scope wire_scope.

Definition ppt : P point := t <- ptok ;; ret (t / 8192, t mod 8192).
Definition pline : P line := plist ppt.
Definition ppoly : P polygon := plist pline.
Definition pmp : P multipolygon := plist ppoly.

Definition mp_eqb : multipolygon -> multipolygon -> bool := list_eqb (list_eqb line_eqb).

Definition prole : P role :=
  r <- pint ;; ret (if r =? 0 then Outer else if r =? 1 then Inner else OtherRole).
Definition role_eqb (a b : role) : bool :=
  match a, b with Outer, Outer | Inner, Inner | OtherRole, OtherRole => true | _, _ => false end.

Definition pgt : P gt_polygon := o <- pline ;; h <- plist pline ;; ret (mkGt o h).
Definition ppiece : P piece :=
  r <- pnat ;; s <- pnat ;; e <- pnat ;; v <- pbool ;; ret (mkPiece r s e v).

Definition pnode : P node := i <- pint ;; p <- ppt ;; ret (mkNode i (fst p) (snd p)).
Definition prawway : P (Z * list Z) := ppair pint (plist pint).
Definition prawmem : P (bool * Z * role) := w <- pbool ;; r <- pint ;; ro <- prole ;; ret (w, r, ro).

Record run := mkRun {
  run_src : Z; run_incl : bool; run_orients : list Z; run_mask : list bool;
  run_nfeat : Z; run_kind : Z; run_polys : multipolygon; run_tainted : bool }.
Definition prun : P run :=
  s <- pint ;; i <- pbool ;; o <- plist pint ;; m <- plist pbool ;;
  n <- pint ;; k <- pint ;; p <- pmp ;; t <- pbool ;;
  ret (mkRun s i o m n k p t).

Definition pannot : P (list Z * bool * list Z) :=
  i <- plist pint ;; ok <- pbool ;; o <- plist pint ;; ret (i, ok, o).

(* ---- building the model's input from the raw data, as the harness builds osm objects ---- *)
Definition annot_wn (nodes : list node) (id : Z) : waynode :=
  match lookup_node nodes id with
  | Some n => mkWN id 0 (node_x n) (node_y n)
  | None => mkWN id 0 0 0
  end.
Definition mk_ways (annotated : bool) (nodes : list node) (raw : list (Z * list Z)) : list way :=
  map (fun w => mkWay (fst w)
                  (map (fun id => if annotated then annot_wn nodes id else mkWN id 0 0 0) (snd w)))
      raw.
(* mixed sources: way node k (counted over all ways in order) is annotated iff mask[k] *)
Fixpoint mk_waynodes_mask (nodes : list node) (ids : list Z) (mask : list bool)
  : list waynode * list bool :=
  match ids with
  | [] => ([], mask)
  | id :: r =>
      let wn := if hd false mask then annot_wn nodes id else mkWN id 0 0 0 in
      let '(wns, m') := mk_waynodes_mask nodes r (tl mask) in (wn :: wns, m')
  end.
Fixpoint mk_ways_mask (nodes : list node) (raw : list (Z * list Z)) (mask : list bool) : list way :=
  match raw with
  | [] => []
  | w :: r => let '(wns, m') := mk_waynodes_mask nodes (snd w) mask in
              mkWay (fst w) wns :: mk_ways_mask nodes r m'
  end.

Fixpoint mk_members (raw : list (bool * Z * role)) (orients : list Z) : list member :=
  match raw with
  | [] => []
  | (w, r, ro) :: rest =>
      mkMem w r ro (hd 0 orients) [] :: mk_members rest (tl orients)
  end.

Definition geom_eqb (g : geometry) (kind : Z) (polys : multipolygon) : bool :=
  match g with
  | GNone => (kind =? 0) && mp_eqb [] polys
  | GPolygon p => (kind =? 1) && mp_eqb [p] polys
  | GMultiPolygon mp => (kind =? 2) && mp_eqb mp polys
  | GOutOfFuel => false
  end.

Definition zlist_eqb := list_eqb Z.eqb.

(* judgement 1 for one Convert run *)
Definition run_model_ok nodes rawways rawmems (r : run) : bool :=
  let ns := if run_src r =? 1 then [] else nodes in
  let ws := if run_src r =? 3 then mk_ways_mask nodes rawways (run_mask r)
            else mk_ways (negb (run_src r =? 0)) nodes rawways in
  let ms := mk_members rawmems (run_orients r) in
  Nat.eqb (length (run_orients r)) (length rawmems) &&
  let '(g, t) := build_polygon (run_incl r) ns ws ms in
  geom_eqb g (run_kind r) (run_polys r) &&
  (* tainted is a property of the feature: compared when there is one *)
  ((run_kind r =? 0) || Bool.eqb t (run_tainted r)).

(* judgement 2 for one Convert run: one feature, exactly the ground-truth polygons, not tainted *)
Definition run_spec_ok (sc : scene) (r : run) : bool :=
  (run_nfeat r =? 1) && ((run_kind r =? 1) || (run_kind r =? 2)) &&
  polygons_match sc (run_polys r) && negb (run_tainted r).

(* judgement 1 for one annotate.Relations run *)
Definition annot_model_ok nodes rawways rawmems (a : list Z * bool * list Z) : bool :=
  let '(oin, ok, oout) := a in
  Nat.eqb (length oin) (length rawmems) &&
  match annotate_orientation (mk_members rawmems oin) (mk_ways true nodes rawways) with
  | Some (os, _) => ok && zlist_eqb os oout
  | None => false
  end.

(* the orientation each member must carry: the direction its way runs around its ring *)
Definition expected_orients (sc : scene) (ps : list piece) : list Z :=
  let rings := scene_rings sc in
  map (fun p => piece_orientation (snd (nth (pc_ring p) rings (Outer, []))) p) ps.

(* relations may also have node / relation members (boundary layout: admin_centre first, subarea
   relations): their piece is a dummy, they are never annotated (expected orientation 0, by
   member index) and take no part in the cut *)
Fixpoint expected_orients_m (sc : scene) (ms : list (bool * Z * role)) (ps : list piece) : list Z :=
  match ms, ps with
  | (isw, _, _) :: mr, p :: pr =>
      (if isw then hd 0 (expected_orients sc [p]) else 0) :: expected_orients_m sc mr pr
  | _, _ => []
  end.
Fixpoint way_pieces (ms : list (bool * Z * role)) (ps : list piece) : list piece :=
  match ms, ps with
  | (isw, _, _) :: mr, p :: pr => if isw then p :: way_pieces mr pr else way_pieces mr pr
  | _, _ => []
  end.

Fixpoint truthful_or_none (given expected : list Z) : bool :=
  match given, expected with
  | [], [] => true
  | g :: gr, e :: er => ((g =? 0) || (g =? e)) && truthful_or_none gr er
  | _, _ => false
  end.

(* judgement 3: the members are the pieces of a valid cut of the scene *)
Definition member_is_piece (sc : scene) nodes rawways (m : bool * Z * role) (p : piece) : bool :=
  let '(isw, ref, ro) := m in
  let '(ringrole, ring) := nth (pc_ring p) (scene_rings sc) (OtherRole, []) in
  negb isw ||
  role_eqb ro ringrole &&
  match lookup_way (mk_ways false nodes rawways) ref with
  | None => false
  | Some w =>
      let '(ls, t) := way_to_line nodes (way_nodes w) in
      negb t && line_eqb ls (piece_line ring p)
  end.

(* the containment hypothesis of theorems 7 / 8 ([Geo.Build.contained]), evaluated: some vertex
   of every hole has an odd crossing number w.r.t. its own outer, none w.r.t. any other outer *)
Definition contained_b (sc : scene) : bool :=
  forallb (fun ip : nat * gt_polygon =>
     let '(i, p) := ip in
     forallb (fun h =>
        existsb (point_in_ring (close_ring (gp_outer p))) h &&
        forallb (fun jq : nat * gt_polygon =>
           let '(j, q) := jq in
           Nat.eqb i j || negb (existsb (point_in_ring (close_ring (gp_outer q))) h))
          (combine (seq 0 (length sc)) sc))
       (gp_holes p))
    (combine (seq 0 (length sc)) sc).

Fixpoint forallb2 {A B} (f : A -> B -> bool) (la : list A) (lb : list B) : bool :=
  match la, lb with
  | [], [] => true
  | a :: ra, b :: rb => f a b && forallb2 f ra rb
  | _, _ => false
  end.

Definition check_scene : P (list Z) :=
  has_spec <- pbool ;;
  spec <- (if has_spec then (sc <- plist pgt ;; ps <- plist ppiece ;; ret (Some (sc, ps)))
           else ret None) ;;
  nodes <- plist pnode ;; rawways <- plist prawway ;; rawmems <- plist prawmem ;;
  runs <- plist prun ;; annots <- plist pannot ;;
  let j1 := forallb (run_model_ok nodes rawways rawmems) runs
            && forallb (annot_model_ok nodes rawways rawmems) annots in
  match spec with
  | None => ret (code_if j1 1)
  | Some (sc, ps) =>
      let exp := expected_orients_m sc rawmems ps in
      let j2 := forallb (run_spec_ok sc) runs
                && forallb (fun a => let '(_, ok, oout) := a in ok && zlist_eqb oout exp) annots in
      let j3 := scene_ok sc && contained_b sc && valid_cuts sc (way_pieces rawmems ps)
                && Nat.eqb (length rawmems) (length ps)
                && forallb2 (member_is_piece sc nodes rawways) rawmems ps
                && forallb (fun r => truthful_or_none (run_orients r) exp) runs in
      (* annotate.Relations must write truthful orientations whatever the members carried
         before (stale or wrong values included): no condition on the annotate inputs *)
      ret (code_if j1 1 ++ code_if j2 2 ++ code_if j3 3)%list
  end.

(* ---- JOIN ---- *)
Definition pseg : P segment :=
  i <- pint ;; o <- pint ;; r <- pbool ;; l <- pline ;; ret (mkSeg i o r l).

Definition seg_eqb (a b : segment) : bool :=
  (seg_index a =? seg_index b) && (seg_orient a =? seg_orient b)
  && Bool.eqb (seg_rev a) (seg_rev b) && line_eqb (seg_line a) (seg_line b).

Definition pchain_obs : P (line * line * Z) :=
  a <- pline ;; b <- pline ;; o <- pint ;; ret (a, b, o).

Definition check_join : P (list Z) :=
  segs <- plist pseg ;; chains <- plist (plist pseg) ;; obs <- plist pchain_obs ;;
  let j1 :=
    match join segs with
    | JoinOk l =>
        list_eqb (list_eqb seg_eqb) l chains &&
        forallb2 (fun ms o => let '(a, b, oo) := o in
                    line_eqb (ring_of CCW ms) a && line_eqb (ring_of CW ms) b
                    && (ms_orientation ms =? oo)) l obs
    | JoinOutOfFuel => false
    end in
  let j2 := conserved segs chains in
  ret (code_if j1 1 ++ code_if j2 2)%list.

(* ---- CONTAINS ---- *)
Definition check_contains : P (list Z) :=
  outer <- pline ;; r <- pline ;; obs <- pbool ;;
  let j1 := Bool.eqb (polygon_contains outer r) obs in
  (* spec: some vertex of r is inside by the exact rational even-odd rule over the cyclic edges *)
  let j2 := Bool.eqb (existsb (spec_inside (llast outer :: outer)) r) obs in
  ret (code_if j1 1 ++ code_if (match outer with [] => true | _ => j2 end) 2)%list.

(* ---- ADDMP ---- *)
Definition check_addmp : P (list Z) :=
  incl <- pbool ;; mp <- pmp ;; ring <- pline ;; obs <- pmp ;;
  ret (code_if (mp_eqb (add_to_multipolygon incl mp ring) obs) 1).

(* ---- MULTI: several relations sharing ways, one Convert call ---- *)
Definition prel : P (scene * list piece * list (bool * Z * role)) :=
  sc <- plist pgt ;; ps <- plist ppiece ;; ms <- plist prawmem ;; ret (sc, ps, ms).
Definition prelobs : P (list Z * Z * multipolygon * bool) :=
  o <- plist pint ;; k <- pint ;; p <- pmp ;; t <- pbool ;; ret (o, k, p, t).
Definition pmrun : P (Z * bool * Z * list (list Z * Z * multipolygon * bool)) :=
  s <- pint ;; i <- pbool ;; n <- pint ;; obs <- plist prelobs ;; ret (s, i, n, obs).

Definition check_multi : P (list Z) :=
  nodes <- plist pnode ;; rawways <- plist prawway ;; rels <- plist prel ;; runs <- plist pmrun ;;
  let as_run (r : Z * bool * Z * list (list Z * Z * multipolygon * bool))
             (ob : list Z * Z * multipolygon * bool) : run :=
    let '(s, i, n, _) := r in let '(o, k, p, t) := ob in
    mkRun s i o [] (if n =? Z.of_nat (length rels) then 1 else 0) k p t in
  let j1 := forallb (fun r => let '(_, _, _, obs) := r in
              forallb2 (fun rel ob => let '(_, _, ms) := rel in run_model_ok nodes rawways ms (as_run r ob))
                       rels obs) runs in
  let j2 := forallb (fun r => let '(_, _, _, obs) := r in
              forallb2 (fun rel ob => let '(sc, _, _) := rel in run_spec_ok sc (as_run r ob)) rels obs) runs in
  let j3 := forallb (fun rel => let '(sc, ps, ms) := rel in
              scene_ok sc && contained_b sc && valid_cuts sc ps && forallb2 (member_is_piece sc nodes rawways) ms ps) rels
            && forallb (fun r => let '(_, _, _, obs) := r in
                 forallb2 (fun rel ob => let '(sc, ps, _) := rel in let '(o, _, _, _) := ob in
                             truthful_or_none o (expected_orients sc ps)) rels obs) runs in
  ret (code_if j1 1 ++ code_if j2 2 ++ code_if j3 3)%list.

Definition check_case (t : toks) : list Z :=
  match t with
  | tag :: rest =>
      let p := if tag =? 2 then check_scene        (* zigzag: 1 -> 2, 2 -> 4, ... *)
               else if tag =? 4 then check_join
               else if tag =? 6 then check_contains
               else if tag =? 8 then check_addmp
               else if tag =? 10 then check_multi
               else pfail in
      match parse_all p rest with Some codes => codes | None => [0] end
  | [] => [0]
  end.

Definition explain_case (t : toks) : list Z := check_case t.
