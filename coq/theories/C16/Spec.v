(* C16/Spec.v — ground truth for multipolygon assembly (visibly simpler than the model).

   A scene is a list of polygons; a polygon is an outer ring and holes; a ring is the list of
   its distinct vertices in drawing order (NOT closed: the first vertex is not repeated).
   Member ways are obtained by [piece_line]: the run of [pc_edges]+1 consecutive vertices of
   ring [pc_ring] starting at position [pc_start], wrapping around, optionally reversed.
   The expected result of the conversion is "the same rings, closed, outers counter-clockwise,
   holes clockwise, each hole with its outer", compared up to rotation of the start vertex and
   up to the order of polygons and of holes.  Executable definitions only. *)
From Coq Require Import ZArith List Bool.
From Verif Require Import Geo.Model.
Import ListNotations.
Open Scope Z_scope.

(* ------------------------------------------------------------------ scenes *)
Record gt_polygon := mkGt { gp_outer : line; gp_holes : list line }.
Definition scene := list gt_polygon.

(* rings of a scene in a fixed order (polygon by polygon, outer first), with their role *)
Definition scene_rings (sc : scene) : list (role * line) :=
  flat_map (fun p => (Outer, gp_outer p) :: map (fun h => (Inner, h)) (gp_holes p)) sc.

Definition scene_points (sc : scene) : list point := flat_map snd (scene_rings sc).

(* ------------------------------------------------------------------ cutting *)
Record piece := mkPiece { pc_ring : nat; pc_start : nat; pc_edges : nat; pc_rev : bool }.

Definition rot {A} (k : nat) (l : list A) : list A := skipn k l ++ firstn k l.

Definition piece_line (r : line) (p : piece) : line :=
  let l := firstn (S (pc_edges p)) (rot (pc_start p) r ++ rot (pc_start p) r) in
  if pc_rev p then rev l else l.

(* the pieces of one ring of n vertices form a cut: walking from the smallest start, each piece
   begins where the previous one ended and together they have exactly n edges *)
Fixpoint insert_piece (p : piece) (l : list piece) : list piece :=
  match l with
  | [] => [p]
  | q :: r => if Nat.leb (pc_start p) (pc_start q) then p :: l else q :: insert_piece p r
  end.
Definition sort_pieces (l : list piece) : list piece := fold_right insert_piece [] l.

Fixpoint chained (n : nat) (at_ : nat) (l : list piece) : bool :=
  match l with
  | [] => true
  | p :: r => Nat.eqb (pc_start p) at_ && Nat.leb 1 (pc_edges p) && chained n (at_ + pc_edges p) r
  end.

Definition valid_cut (n : nat) (ps : list piece) : bool :=
  match sort_pieces ps with
  | [] => false
  | (p0 :: _) as l =>
      Nat.ltb (pc_start p0) n && chained n (pc_start p0) l
      && Nat.eqb (fold_right (fun p a => (pc_edges p + a)%nat) O l) n
  end.

Definition pieces_of_ring (i : nat) (ps : list piece) : list piece :=
  filter (fun p => Nat.eqb (pc_ring p) i) ps.

Definition valid_cuts (sc : scene) (ps : list piece) : bool :=
  let rings := scene_rings sc in
  forallb (fun p => Nat.ltb (pc_ring p) (length rings)) ps &&
  forallb (fun i => valid_cut (length (snd (nth i rings (Outer, [])))) (pieces_of_ring i ps))
          (seq 0 (length rings)).

(* ------------------------------------------------------------------ signed area, winding *)
(* textbook shoelace sum over the consecutive pairs of a closed ring (twice the area) *)
Fixpoint shoelace (l : line) : Z :=
  match l with
  | p :: ((q :: _) as r) => (fst p * snd q - fst q * snd p) + shoelace r
  | _ => 0
  end.
Definition close_ring (r : line) : line := match r with [] => [] | p :: _ => r ++ [p] end.
Definition ccwb (closed_ring : line) : bool := shoelace closed_ring >? 0.
Definition cwb (closed_ring : line) : bool := shoelace closed_ring <? 0.

(* the direction in which an open ground-truth ring is drawn: 1 ccw, -1 cw *)
Definition ring_sign (r : line) : Z := sign (shoelace (close_ring r)).

(* direction in which the way of a piece runs around its ring *)
Definition piece_orientation (r : line) (p : piece) : Z :=
  if pc_rev p then - ring_sign r else ring_sign r.

(* ------------------------------------------------------------------ comparison up to rotation/order *)
Definition line_eqb (a b : line) : bool :=
  Nat.eqb (length a) (length b) && forallb (fun pq => pt_eqb (fst pq) (snd pq)) (combine a b).

(* b is a rotation of a: some split a = pre ++ suf has suf ++ pre = b.  The candidate split is
   only compared in full when its first vertex is b's first vertex (linear for rings with
   distinct vertices; [rev_append pre_rev []] is the reversal in linear time). *)
Fixpoint cyc_search (pre_rev suf b : line) : bool :=
  match suf with
  | [] => false
  | x :: s' =>
      (* if-then-else, not && / ||: vm_compute evaluates both arguments of a function *)
      if (if pt_eqb x (hd origin b) then line_eqb (suf ++ rev_append pre_rev []) b else false)
      then true else cyc_search (x :: pre_rev) s' b
  end.
Definition cyc_eqb (a b : line) : bool :=
  match a, b with
  | [], [] => true
  | _, _ => Nat.eqb (length a) (length b) && cyc_search [] a b
  end.

(* an observed (closed) ring is the ground-truth ring [gt], in either direction, from any start *)
Definition ring_matches (gt obs : line) : bool :=
  Nat.leb 4 (length obs) && closedb obs &&
  (cyc_eqb gt (removelast obs) || cyc_eqb (rev gt) (removelast obs)).

Fixpoint remove_first {A} (f : A -> bool) (l : list A) : option (list A) :=
  match l with
  | [] => None
  | a :: r => if f a then Some r
              else match remove_first f r with Some r' => Some (a :: r') | None => None end
  end.

(* a bijection between [la] and [lb] along [rel] (greedy; exact when [rel] relates an [a] to at
   most one class of [b], as for disjoint rings) *)
Fixpoint bijection {A B} (rel : A -> B -> bool) (la : list A) (lb : list B) : bool :=
  match la with
  | [] => match lb with [] => true | _ => false end
  | a :: r => match remove_first (rel a) lb with
              | Some lb' => bijection rel r lb'
              | None => false
              end
  end.

Definition polygon_matches (gt : gt_polygon) (obs : polygon) : bool :=
  match obs with
  | [] => false
  | outer :: holes =>
      ring_matches (gp_outer gt) outer && ccwb outer &&
      bijection (fun h o => ring_matches h o && cwb o) (gp_holes gt) holes
  end.

(* the expected geometry: exactly the polygons of the scene *)
Definition polygons_match (sc : scene) (obs : multipolygon) : bool :=
  bijection polygon_matches sc obs.

(* ------------------------------------------------------------------ scene hypotheses (decidable part) *)
Fixpoint nodup_pts (l : list point) : bool :=
  match l with
  | [] => true
  | p :: r => negb (existsb (pt_eqb p) r) && nodup_pts r
  end.

(* all vertices of the scene are pairwise distinct, none is (0,0), every ring has >= 3 vertices
   and non-zero area.  (Simplicity of rings, disjointness and strict containment of holes are
   asserted with exact integer arithmetic by the scene generator.) *)
Definition scene_ok (sc : scene) : bool :=
  nodup_pts (scene_points sc) &&
  negb (existsb (pt_eqb origin) (scene_points sc)) &&
  forallb (fun rl => Nat.leb 3 (length (snd rl)) && negb (ring_sign (snd rl) =? 0)) (scene_rings sc) &&
  negb (Nat.eqb (length sc) 0).

(* ------------------------------------------------------------------ spec of point-in-polygon *)
(* even-odd rule for the horizontal ray from p towards +x, edges taken half-open in y, written
   with exact rationals: the edge (a,b) is crossed iff  (ay > y) <> (by > y)  and
   x < ax + (bx-ax)*(y-ay)/(by-ay) *)
From Coq Require Import QArith.
Definition spec_crosses (p a b : point) : bool :=
  let '(x, y) := p in let '(ax, ay) := a in let '(bx, by_) := b in
  negb (Bool.eqb (ay >? y)%Z (by_ >? y)%Z) &&
  match Qcompare (inject_Z x)
          (inject_Z ax + inject_Z ((bx - ax) * (y - ay)) / inject_Z (by_ - ay))%Q with
  | Lt => true
  | _ => false
  end.

(* edges of a closed ring: consecutive pairs *)
Fixpoint edges (l : line) : list (point * point) :=
  match l with
  | p :: ((q :: _) as r) => (p, q) :: edges r
  | _ => []
  end.

Definition spec_inside (closed_ring : line) (p : point) : bool :=
  Nat.odd (length (filter (fun e => spec_crosses p (fst e) (snd e)) (edges closed_ring))).

(* ------------------------------------------------------------------ conservation oracle for Join *)
(* Decision procedure used on OBSERVED outputs of mputil.Join when input segments carry distinct
   Index values: the output segments are exactly the input segments with >= 2 points, each whole
   or reversed as its Reversed flag says, trimmed only at the joints: in every chain there is a
   seed position k; segments before it lost their last point, segments after it their first
   point, and the lost point is the neighbour's adjacent end point. *)
Open Scope Z_scope.
Fixpoint insert_z (x : Z) (l : list Z) : list Z :=
  match l with [] => [x] | y :: r => if x <=? y then x :: l else y :: insert_z x r end.
Definition sort_z (l : list Z) : list Z := fold_right insert_z [] l.
Fixpoint list_z_eqb (a b : list Z) : bool :=
  match a, b with
  | [], [] => true
  | x :: a', y :: b' => (x =? y) && list_z_eqb a' b'
  | _, _ => false
  end.

Fixpoint all_some {A} (l : list (option A)) : option (list A) :=
  match l with
  | [] => Some []
  | Some a :: r => match all_some r with Some r' => Some (a :: r') | None => None end
  | None :: _ => None
  end.

Definition oriented_full (inp out : segment) : line :=
  if Bool.eqb (seg_rev inp) (seg_rev out) then seg_line inp else rev (seg_line inp).

Fixpoint joints_ok (fulls : list line) : bool :=
  match fulls with
  | a :: ((b :: _) as r) => pt_eqb (llast a) (lfirst b) && joints_ok r
  | _ => true
  end.

Fixpoint trimmed_ok (k : nat) (i : nat) (chain : multisegment) (fulls : list line) : bool :=
  match chain, fulls with
  | [], [] => true
  | t :: c', f :: f' =>
      line_eqb (seg_line t)
               (if Nat.ltb i k then removelast f else if Nat.eqb i k then f else tl f)
      && trimmed_ok k (S i) c' f'
  | _, _ => false
  end.

Definition chain_conserved (inputs : list segment) (chain : multisegment) : bool :=
  match all_some (map (fun t =>
           match find (fun s => seg_index s =? seg_index t) inputs with
           | Some s => if seg_orient s =? seg_orient t then Some (oriented_full s t) else None
           | None => None
           end) chain) with
  | None => false
  | Some fulls =>
      negb (Nat.eqb (length chain) 0) &&
      forallb (fun f => Nat.leb 2 (length f)) fulls &&
      joints_ok fulls &&
      existsb (fun k => trimmed_ok k 0 chain fulls) (seq 0 (length chain))
  end.

Definition conserved (inputs : list segment) (chains : list multisegment) : bool :=
  list_z_eqb (sort_z (map seg_index (compact inputs)))
             (sort_z (map seg_index (concat chains)))
  && forallb (chain_conserved inputs) chains.
