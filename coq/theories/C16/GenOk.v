(* C16/GenOk.v — obligations tying gen/GenMputil.v (regenerated from /repo by translator/cmd/mputil
   on every run) to the model Geo/Model.v.  Every item the translator recognised ("Some ...") must
   equal the model's; an item it did not recognise ("None": the source was restructured) carries
   no obligation and is tied by the correspondence harness only. *)
From Coq Require Import ZArith List Bool Lia QArith.
From Verif Require Import Geo.Model Geo.GenSupport Geo.Tables C16.Spec C16.RayQ.
From VerifGen Require Import GenMputil.
Import ListNotations.
Open Scope Z_scope.

Definition when {A} (o : option A) (P : A -> Prop) : Prop :=
  match o with Some a => P a | None => True end.

(* every proof starts with [none_ok]: an unrecognised item (None) carries no obligation; the
   remaining sentences are prefixed with [all:] so that they are skipped when no goal is left *)
Ltac none_ok := try exact I.

(* semantic comparison of linear integer tests: every comparison is turned into its
   specification and the goal closed by lia, whatever the shape of the boolean expression *)
Ltac bool_cases :=
  repeat match goal with
  | |- context [Z.gtb ?a ?b] => rewrite (Z.gtb_ltb a b)
  | |- context [Z.geb ?a ?b] => rewrite (Z.geb_leb a b)
  | |- context [Z.leb ?a ?b] => destruct (Z.leb_spec a b)
  | |- context [Z.ltb ?a ?b] => destruct (Z.ltb_spec a b)
  | |- context [Z.eqb ?a ?b] => destruct (Z.eqb_spec a b)
  | |- context [Nat.ltb ?a ?b] => destruct (Nat.ltb_spec a b)
  end; cbn [negb andb orb]; try reflexivity; try lia.

(* Join: the four cases, in order *)
Theorem genok_join_cases : when gen_join_cases (fun t => t = map case_tuple join_cases).
Proof. none_ok. all: reflexivity. Qed.

(* Join: which half of the slice the matched segment is in *)
Theorem genok_join_first_half : when gen_join_first_half (fun g =>
  forall f n : nat, g (Z.of_nat f) (Z.of_nat n) = Nat.ltb f (Nat.div n 2)).
Proof.
  none_ok.
  all: cbn [when gen_join_first_half]; intros f n; change 2 with (Z.of_nat 2); rewrite <- Nat2Z.inj_div.
  all: generalize (Nat.div n 2); intros h; bool_cases.
Qed.

(* compact: a segment is kept iff its line has more than one point *)
Theorem genok_compact_skip : when gen_compact_skip (fun g =>
  forall n : nat, negb (g (Z.of_nat n)) = Nat.ltb 1 n).
Proof.
  none_ok.
  all: cbn [when gen_compact_skip]; intros n; bool_cases.
Qed.

(* MultiSegment.Orientation: the shoelace term with the first point as offset, and the sign test *)
Theorem genok_orientation_term : when gen_orientation_term (fun g =>
  forall prev offset pt, g prev offset pt = cross_off offset prev pt).
Proof. none_ok. all: simpl; intros; reflexivity. Qed.

Theorem genok_orientation_ccw : when gen_orientation_ccw (fun g =>
  forall ms, ms_orientation ms = if g (ms_area2 ms) then CCW else CW).
Proof. none_ok. all: simpl; intros ms; reflexivity. Qed.

(* MultiSegment.Ring: the three tests *)
Theorem genok_ring_annotated : when gen_ring_annotated (fun g => forall o, g o = ring_annotated o).
Proof. none_ok. all: simpl; intros; reflexivity. Qed.
Theorem genok_ring_says_reversed : when gen_ring_says_reversed (fun g =>
  forall a o r, g a o r = ring_says_reversed a o r).
Proof. none_ok. all: simpl; intros; reflexivity. Qed.
Theorem genok_ring_reverse : when gen_ring_reverse (fun g =>
  forall h r ro o, g h r ro o = ring_reverse h r ro o).
Proof. none_ok. all: simpl; intros; reflexivity. Qed.

(* polygonContains: tie rule and division expression over exact rationals = the model's
   cross-multiplied integer test *)
Lemma Qgtb_inject : forall a b, Qgtb (inject_Z a) (inject_Z b) = (a >? b).
Proof.
  intros a b. unfold Qgtb, Qltb, Qcompare, inject_Z. simpl. rewrite !Z.mul_1_r.
  rewrite Z.gtb_ltb. unfold Z.ltb. destruct (b ?= a); reflexivity.
Qed.

Lemma Qltb_div : forall x a n d, d <> 0 ->
  Qltb (inject_Z x) (inject_Z n / inject_Z d + inject_Z a) =
  if d >? 0 then (x - a) * d <? n else n <? (x - a) * d.
Proof.
  intros x a n d Hd. unfold Qltb.
  rewrite (Qcompare_comp (inject_Z x) (inject_Z x) (Qeq_refl _) _ _ (Qplus_comm _ _)).
  pose proof (q_lt_div x a n d Hd) as H.
  destruct (Qcompare (inject_Z x) (inject_Z a + inject_Z n / inject_Z d)) eqn:E.
  - destruct (d >? 0); symmetry; apply Z.ltb_ge; destruct (Z.lt_ge_cases ((x - a) * d) n) as [L|L];
      try lia; try (exfalso; assert (X : Eq = Lt) by (apply H; assumption); discriminate).
    all: destruct (Z.lt_ge_cases n ((x - a) * d)) as [L'|L']; try lia;
      exfalso; assert (X : Eq = Lt) by (apply H; assumption); discriminate.
  - destruct (d >? 0); symmetry; apply Z.ltb_lt; apply H; reflexivity.
  - destruct (d >? 0); symmetry; apply Z.ltb_ge.
    + destruct (Z.lt_ge_cases ((x - a) * d) n) as [L|L]; [|lia].
      exfalso; assert (X : Gt = Lt) by (apply H; assumption); discriminate.
    + destruct (Z.lt_ge_cases n ((x - a) * d)) as [L|L]; [|lia].
      exfalso; assert (X : Gt = Lt) by (apply H; assumption); discriminate.
Qed.

Theorem genok_contains_crosses : when gen_contains_crosses (fun g =>
  forall p vi vj, g (fst p) (snd p) (fst vi) (snd vi) (fst vj) (snd vj) = crosses p vi vj).
Proof.
  none_ok.
  all: simpl; intros [x y] [xi yi] [xj yj]; cbn [fst snd]; unfold crosses.
  all: rewrite !Qgtb_inject.
  all: destruct (Bool.eqb (yi >? y) (yj >? y)) eqn:E; [reflexivity|]; cbn [negb andb].
  all: assert (Hd : yj - yi <> 0)
    by (intro H; assert (yj = yi) by lia; subst; rewrite eqb_reflx in E; discriminate).
  all: unfold Qminus; rewrite <- !inject_Z_opp, <- !inject_Z_plus, <- inject_Z_mult.
  all: rewrite (Qltb_div x xi ((xj + - xi) * (y + - yi)) (yj + - yi)) by lia.
  all: replace (yj + - yi) with (yj - yi) by lia; replace (xj + - xi) with (xj - xi) by lia.
  all: replace (y + - yi) with (y - yi) by lia; reflexivity.
Qed.

(* the three core items must be recognised on the tree as it is (no vacuous tie) *)
Theorem genok_core_recognised :
  gen_join_cases <> None /\ gen_orientation_term <> None /\ gen_contains_crosses <> None.
Proof. repeat split; discriminate. Qed.
