(* C16/RayQ.v — the cross-multiplied integer test of the model's [crosses] is the exact rational
   comparison  x < ax + (bx-ax)*(y-ay)/(by-ay)  of the spec ([spec_crosses], edge a -> b). *)
From Coq Require Import ZArith List Bool Lia QArith.
From Verif Require Import Geo.Model C16.Spec.
Open Scope Z_scope.

Lemma q_lt_div : forall x a n d, d <> 0 ->
  (Qcompare (inject_Z x) (inject_Z a + inject_Z n / inject_Z d)%Q = Lt <->
   if d >? 0 then (x - a) * d < n else n < (x - a) * d).
Proof.
  intros x a n d Hd. unfold Qcompare, Qplus, Qdiv, Qmult, Qinv, inject_Z.
  destruct d as [|p|p]; [congruence| |]; cbn [Qnum Qden]; rewrite Z.compare_lt_iff.
  - change (Z.pos p >? 0) with true. cbv iota. rewrite !Pos.mul_1_l, !Z.mul_1_r.
    pose proof (Pos2Z.is_pos p). nia.
  - change (Z.neg p >? 0) with false. cbv iota. rewrite !Pos.mul_1_l, !Z.mul_1_r.
    pose proof (Pos2Z.neg_is_neg p). rewrite <- Pos2Z.opp_pos in *. nia.
Qed.

Theorem crosses_is_spec : forall p cur prev, crosses p cur prev = spec_crosses p prev cur.
Proof.
  intros [x y] [xi yi] [xj yj]. unfold crosses, spec_crosses.
  destruct (yi >? y) eqn:A, (yj >? y) eqn:B; cbn [Bool.eqb negb andb]; try reflexivity.
  all: assert (Hd : yi - yj <> 0) by lia.
  all: pose proof (q_lt_div x xj ((xi - xj) * (y - yj)) (yi - yj) Hd) as Hq.
  all: cbv zeta.
  all: destruct (Qcompare (inject_Z x) (inject_Z xj + inject_Z ((xi - xj) * (y - yj)) / inject_Z (yi - yj))%Q) eqn:Ec.
  all: destruct (yi - yj >? 0) eqn:E1; destruct (yj - yi >? 0) eqn:E2; try lia.
  all: try (assert (Hn : ~ ((xi - xj) * (y - yj) < (x - xj) * (yi - yj))) by (intro H; apply Hq in H; discriminate); apply Z.ltb_ge; nia).
  all: try (assert (Hn : ~ ((x - xj) * (yi - yj) < (xi - xj) * (y - yj))) by (intro H; apply Hq in H; discriminate); apply Z.ltb_ge; nia).
  all: try (assert (Hn : (xi - xj) * (y - yj) < (x - xj) * (yi - yj)) by (apply Hq; reflexivity); apply Z.ltb_lt; nia).
  all: try (assert (Hn : (x - xj) * (yi - yj) < (xi - xj) * (y - yj)) by (apply Hq; reflexivity); apply Z.ltb_lt; nia).
Qed.

Lemma pir_loop_spec : forall p l prev inside,
  pir_loop p prev l inside =
  xorb inside (Nat.odd (length (filter (fun e => spec_crosses p (fst e) (snd e)) (edges (prev :: l))))).
Proof.
  intros p l. induction l as [|cur r IH]; intros prev inside.
  - simpl. rewrite xorb_false_r. reflexivity.
  - change (pir_loop p prev (cur :: r) inside)
      with (pir_loop p cur r (if crosses p cur prev then negb inside else inside)).
    rewrite IH. change (edges (prev :: cur :: r)) with ((prev, cur) :: edges (cur :: r)).
    cbn [filter fst snd]. rewrite <- crosses_is_spec.
    destruct (crosses p cur prev); [|reflexivity].
    cbn [length]. rewrite Nat.odd_succ, <- Nat.negb_odd.
    destruct inside, (Nat.odd (length (filter (fun e => spec_crosses p (fst e) (snd e)) (edges (cur :: r))))); reflexivity.
Qed.

(* polygonContains's per-point test is the even-odd rule with exact rational arithmetic over the
   cyclic edges of the ring (previous of the first vertex = the last vertex) *)
Theorem point_in_ring_is_spec : forall outer p,
  point_in_ring outer p = spec_inside (llast outer :: outer) p.
Proof.
  intros outer p. unfold point_in_ring, spec_inside. rewrite pir_loop_spec. apply xorb_false_l.
Qed.
