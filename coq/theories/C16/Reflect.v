(* C16/Reflect.v — reflection between the executable oracle vocabulary of C16/Spec.v (judgements 2
   and 3 of the case checker) and the Prop vocabulary of the theorems (directory Geo):
   - the ring atoms of [polygons_match]: a ring line in the theorems' sense ([is_ring_line],
     [ccw_line], [cw_line]) is accepted by the oracle's [ring_matches] / [ccwb] / [cwb];
   - the cut atoms: the oracle's [piece_line] runs around its ring in the direction the oracle
     expects ([piece_orientation]) in the theorems' sense ([Truthful.runs]).
   NOT proved (the remaining gap, listed in trusted_base): that [valid_cuts] implies
   [is_cut_lines], and that [Forall2 poly_recovered] implies the greedy [bijection] of
   [polygons_match]. *)
From Coq Require Import ZArith List Bool Lia Arith Permutation.
From Verif Require Import Geo.Model Geo.Conserve Geo.Edges Geo.Orient Geo.Rings Geo.Recover
  Geo.Truthful Geo.Build C16.Spec.
Import ListNotations.
Open Scope Z_scope.

Lemma spec_shoelace_eq : forall l, Spec.shoelace l = Orient.shoelace l.
Proof.
  induction l as [|a l IH]; [reflexivity|]. destruct l as [|b l']; [reflexivity|].
  change (Spec.shoelace (a :: b :: l')) with ((fst a * snd b - fst b * snd a) + Spec.shoelace (b :: l')).
  change (Orient.shoelace (a :: b :: l')) with ((fst a * snd b - fst b * snd a) + Orient.shoelace (b :: l')).
  rewrite IH. reflexivity.
Qed.

Lemma line_eqb_refl : forall l, line_eqb l l = true.
Proof.
  intros l. unfold line_eqb. rewrite Nat.eqb_refl. simpl.
  induction l as [|a l IH]; [reflexivity|]. simpl. rewrite pt_eqb_refl. exact IH.
Qed.

(* b is the rotation of rev pre_rev ++ s1 ++ s2 that starts at s2 *)
Lemma cyc_search_complete : forall s1 pre_rev s2 b,
  s2 <> [] -> b = s2 ++ (rev pre_rev ++ s1) -> cyc_search pre_rev (s1 ++ s2) b = true.
Proof.
  induction s1 as [|x s1 IH]; intros pre_rev s2 b Hne Eb.
  - simpl app. destruct s2 as [|y s2']; [congruence|]. cbn [cyc_search].
    rewrite Eb. cbn [hd app]. rewrite pt_eqb_refl. rewrite <- rev_alt, app_nil_r.
    change (y :: s2' ++ rev pre_rev) with ((y :: s2') ++ rev pre_rev). rewrite line_eqb_refl. reflexivity.
  - cbn [app cyc_search].
    rewrite (IH (x :: pre_rev) s2 b Hne); [destruct (if pt_eqb x (hd origin b) then _ else false); reflexivity|].
    rewrite Eb. simpl rev. rewrite <- !app_assoc. reflexivity.
Qed.

Definition rotation (a b : line) : Prop := exists u v, a = u ++ v /\ b = v ++ u /\ v <> [].

Lemma cyc_eqb_rotation : forall a b, rotation a b -> cyc_eqb a b = true.
Proof.
  intros a b (u & v & -> & -> & Hv). unfold cyc_eqb.
  destruct (u ++ v) eqn:E1; [apply app_eq_nil in E1; destruct E1; congruence|]. rewrite <- E1.
  destruct (v ++ u) eqn:E2; [apply app_eq_nil in E2; destruct E2; congruence|]. rewrite <- E2.
  rewrite !app_length, (Nat.add_comm (length u)), Nat.eqb_refl. cbn [andb].
  apply (cyc_search_complete u [] v); [exact Hv|reflexivity].
Qed.

Lemma rot_split : forall s (r : line), (s < length r)%nat ->
  rotation r (Rings.rot s r).
Proof.
  intros s r Hs. exists (firstn s r), (skipn s r). split; [symmetry; apply firstn_skipn|]. split; [reflexivity|].
  intro E. pose proof (skipn_length s r) as L. rewrite E in L. simpl in L. lia.
Qed.

(* the oracle accepts every ring line of the theorems *)
Theorem is_ring_line_matches : forall r L, (3 <= length r)%nat -> is_ring_line r L ->
  ring_matches r L = true.
Proof.
  intros r L H3 (s & Hs & HL). unfold ring_matches.
  pose proof (rot_split s r Hs) as HX.
  assert (HXl : length (Rings.rot s r) = length r) by (unfold Rings.rot; rewrite app_length, skipn_length, firstn_length; lia).
  destruct (Rings.rot s r) as [|x0 X'] eqn:EX; [exfalso; rewrite <- HXl in H3; simpl in H3; inversion H3|].
  destruct HL as [->| ->]; unfold Rings.close_ring; cbn [hd];
    (apply andb_true_iff; split; [apply andb_true_iff; split|]).
  - apply Nat.leb_le. rewrite app_length, HXl. cbn [length]. rewrite Nat.add_1_r. apply le_n_S. exact H3.
  - unfold closedb, lfirst, llast. rewrite last_last. cbn [hd app]. apply pt_eqb_refl.
  - rewrite removelast_app by discriminate. cbn [removelast]. rewrite app_nil_r.
    rewrite (cyc_eqb_rotation r (x0 :: X') HX). reflexivity.
  - apply Nat.leb_le. rewrite rev_length, app_length, HXl. cbn [length]. rewrite Nat.add_1_r. apply le_n_S. exact H3.
  - unfold closedb. rewrite lfirst_rev, llast_rev. unfold lfirst, llast. rewrite last_last. cbn [hd app].
    apply pt_eqb_refl.
  - replace (rev ((x0 :: X') ++ [x0])) with ((x0 :: rev X') ++ [x0]) by (rewrite rev_app_distr; reflexivity).
    rewrite removelast_app by discriminate. cbn [removelast]. rewrite app_nil_r.
    assert (Hr : rotation (rev r) (x0 :: rev X')).
    { destruct HX as (u & v & Eu & Ev & Hv). destruct v as [|v0 v']; [congruence|].
      inversion Ev; subst. exists (rev v'), (v0 :: rev u). split; [|split; [|discriminate]].
      - rewrite rev_app_distr. simpl. rewrite <- app_assoc. reflexivity.
      - rewrite rev_app_distr. reflexivity. }
    rewrite (cyc_eqb_rotation _ _ Hr). apply orb_true_r.
Qed.

Theorem ccw_line_accepted : forall o ol, (3 <= length o)%nat -> ccw_line o ol ->
  ring_matches o ol && ccwb ol = true.
Proof.
  intros o ol H3 [Hrl Hs]. rewrite (is_ring_line_matches o ol H3 Hrl). unfold ccwb.
  rewrite spec_shoelace_eq. unfold sign in Hs.
  destruct (Orient.shoelace ol >? 0) eqn:E; [reflexivity|]. destruct (Orient.shoelace ol <? 0); discriminate.
Qed.

Theorem cw_line_accepted : forall h hl, (3 <= length h)%nat -> cw_line h hl ->
  ring_matches h hl && cwb hl = true.
Proof.
  intros h hl H3 [Hrl Hs]. rewrite (is_ring_line_matches h hl H3 Hrl). unfold cwb.
  rewrite spec_shoelace_eq. unfold sign in Hs.
  destruct (Orient.shoelace hl >? 0) eqn:E; [discriminate|]. destruct (Orient.shoelace hl <? 0); [reflexivity|discriminate].
Qed.

(* ---------------------------------------------------------------- pieces run as the oracle expects *)
Lemma line_edges_firstn : forall k (l : line) e, In e (line_edges (firstn k l)) -> In e (line_edges l).
Proof.
  induction k as [|k IH]; intros l e H; [destruct l; contradiction|].
  destruct l as [|a l]; [contradiction|]. destruct l as [|b l'].
  - destruct k; simpl in H; contradiction.
  - destruct k as [|k']; [simpl in H; contradiction|].
    change (firstn (S (S k')) (a :: b :: l')) with (a :: firstn (S k') (b :: l')) in H.
    change (firstn (S k') (b :: l')) with (b :: firstn k' l') in H.
    change (line_edges (a :: b :: firstn k' l')) with ((a, b) :: line_edges (b :: firstn k' l')) in H.
    change (line_edges (a :: b :: l')) with ((a, b) :: line_edges (b :: l')).
    destruct H as [<-|H]; [left; reflexivity|right].
    apply (IH (b :: l')). exact H.
Qed.

Lemma spec_rot_eq : forall k (l : line), Spec.rot k l = Rings.rot k l.
Proof. reflexivity. Qed.

(* a forward piece (as the oracle cuts it) is made of forward steps of its ring *)
Theorem piece_forward : forall (r : line) s e, (s < length r)%nat -> (e <= length r)%nat ->
  fwd r (firstn (S e) (Spec.rot s r ++ Spec.rot s r)).
Proof.
  intros r s e Hs He ed Hed. rewrite !spec_rot_eq in Hed. set (X := Rings.rot s r) in *.
  assert (HXl : length X = length r) by (unfold X, Rings.rot; rewrite app_length, skipn_length, firstn_length; lia).
  apply ringE_step. destruct ed as [a b].
  eapply Permutation_in; [apply (ringE_rot s r Hs)|]. fold X.
  (* the piece is a prefix of the closed rotated ring *)
  assert (Epre : firstn (S e) (X ++ X) = firstn (S e) (Rings.close_ring X)).
  { destruct X as [|x0 X'] eqn:EX; [simpl in HXl; lia|]. unfold Rings.close_ring. cbn [hd].
    rewrite !firstn_app. f_equal.
    assert (Hk : (S e - length (x0 :: X') <= 1)%nat) by (rewrite HXl; lia).
    destruct (S e - length (x0 :: X'))%nat as [|[|k]]; [reflexivity|reflexivity|lia]. }
  rewrite Epre in Hed. apply (line_edges_firstn _ _ _ Hed).
Qed.

(* the oracle's expected orientation of a piece is a direction in the theorems' sense *)
Theorem piece_orientation_runs : forall (r : line) p,
  (3 <= length r)%nat -> (pc_start p < length r)%nat -> (pc_edges p <= length r)%nat ->
  runs r (piece_orientation r p) (piece_line r p).
Proof.
  intros r p H3 Hs He. unfold piece_orientation, piece_line.
  assert (Esign : Spec.ring_sign r = Truthful.ring_sign r).
  { unfold Spec.ring_sign, Truthful.ring_sign, Spec.close_ring, Rings.close_ring.
    destruct r as [|x r']; [simpl in H3; lia|]. cbn [hd]. rewrite spec_shoelace_eq. reflexivity. }
  rewrite Esign. pose proof (piece_forward r (pc_start p) (pc_edges p) Hs He) as Hf.
  destruct (pc_rev p).
  - right. split; [apply fwd_rev; exact Hf|reflexivity].
  - left. split; [exact Hf|reflexivity].
Qed.
