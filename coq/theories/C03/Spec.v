(* C03/Spec.v — the documents the decoding property quantifies over, independent of the codec
   model: a document tree conforms to the OSM XML vocabulary (Codec/SpecNames.v) with extras
   when every element is either at a place the vocabulary provides, or an unknown element —
   a name the vocabulary does not provide there, whose whole subtree contains no element named
   (in any letter case) like one of the seven object kinds; attributes are arbitrary except
   that no attribute name occurs twice on an element.  Executable definitions only. *)
From Coq Require Import List String Bool ZArith.
From Verif Require Import Codec.Schema Codec.Value Codec.Xml Codec.Scan Codec.SpecNames.
Import ListNotations.
Open Scope string_scope.
Open Scope list_scope.

Fixpoint nodup_str (l : list string) : bool :=
  match l with
  | [] => true
  | x :: r => negb (existsb (String.eqb x) r) && nodup_str r
  end.

Definition is_object_name (nm : string) : bool :=
  existsb (fun k => String.eqb (fst k) (lower_ascii nm)) object_kinds.

(* no element of the subtree is named like an object kind *)
Fixpoint clean_unknown (e : xml) : bool :=
  match e with
  | Elem nm _ kids _ =>
      negb (is_object_name nm)
      && (fix go (l : list xml) : bool :=
            match l with [] => true | k :: r => clean_unknown k && go r end) kids
  end.

Fixpoint conforms_x (n : nat) (s : spec) (e : xml) : bool :=
  match n with
  | O => false
  | S n' =>
      match e with
      | Elem nm attrs kids _ =>
          String.eqb nm (sname s)
          && nodup_str (map fst attrs)
          && forallb (fun k => match find_spec (skids s) (xname k) with
                               | Some ks => conforms_x n' ks k
                               | None => clean_unknown k
                               end) kids
      end
  end.

Definition doc_ok (T : string) (e : xml) : bool :=
  match spec_of T with Some s => conforms_x 16 s e | None => false end.
