(* C03/Check.v — correspondence + property oracle for one harness case (executable only).

   Case layout:
     T (Go type decoded into)  known-class?  document-tree (typed atoms, with the extras the writer added)
     value(T) written (ground truth)   n (kind value(kind))*  objects written, document order
     unmarshal_ok [value(T)]   scan_ok  n (kind value(kind))*
   codes: 1 = model <> implementation (whole-document decoder or streaming scanner)
          2 = the property fails on the observation: the decoded value is not the value
              written, or the scanner does not yield the written objects in document order
          3 = generator sanity: the document is outside the independent writer's family
              (C03/Spec.v doc_ok: OSM XML vocabulary in its places + unknown attributes + clean unknown
              elements) although no known-finding class was assigned (or inside although one was).
              doc_ok is NOT the domain of the theorems (that is: model writer output + noise, see
              Properties/C03.v); it is the domain of the per-case oracle.
          0 = the case does not parse. *)
From Coq Require Import ZArith List String Bool.
From Verif Require Import Base.Wire Codec.Schema Codec.Value Codec.Xml Codec.Scan Codec.SpecNames
     Codec.Transport Codec.Big C03.Spec.
From VerifGen Require Import GenSchema.
Import ListNotations.
Open Scope Z_scope.
Open Scope wire_scope.

Definition PFUEL : nat := 24.

Definition patom : P atom :=
  k <- pint ;;
  if k =? 0 then (s <- pbytes ;; ret (AStr s))
  else if k =? 1 then (z <- pint ;; ret (AInt z))
  else if k =? 2 then (z <- pint ;; ret (AFloat z))
  else if k =? 3 then (b <- pbool ;; ret (ABool b))
  else if k =? 4 then (s <- pint ;; ns <- pint ;; ret (ATime (s * 1000000000 + ns)))
  else if k =? 5 then (s <- pint ;; ret (ADate s))
  else pfail.

Fixpoint pxml (n : nat) : P xml :=
  match n with
  | O => pfail
  | S n' =>
      nm <- pstring ;; at_ <- plist (ppair pstring patom) ;; tx <- patom ;; ks <- plist (pxml n') ;;
      ret (Elem nm at_ ks tx)
  end.

Definition pobj : P (string * value) :=
  k <- pstring ;;
  (if existsb (fun x => String.eqb (snd x) k) object_kinds
   then (v <- pvalue gen_schema PFUEL (TNamed k) ;; ret (k, v))
   else pfail).

Definition objs_eqb (a b : list (string * value)) : bool :=
  list_eqb (fun x y => String.eqb (fst x) (fst y) && value_eqb (snd x) (snd y)) a b.

Definition check_doc (T : string) : P (list Z) :=
  _u <- (if existsb (String.eqb T) top_types then ret tt else pfail) ;;
  known <- pbool ;;
  doc <- pxml 64 ;;
  v <- pvalue gen_schema PFUEL (TNamed T) ;;
  written <- plist pobj ;;
  uok <- pbool ;;
  v2 <- (if uok then (x <- pvalue gen_schema PFUEL (TNamed T) ;; ret (Some x)) else ret None) ;;
  sok <- pbool ;;
  sc <- plist pobj ;;
  let j1 :=
    result_value_eqb (decode gen_schema T doc) v2
    && (let '(objs, er) := scan_el gen_schema doc in
        objs_eqb objs sc && Bool.eqb (match er with None => true | Some _ => false end) sok) in
  let j2 :=
    match v2 with Some x => value_eqb x v | None => false end
    && sok && objs_eqb sc written in
  (* the harness assigns a known-finding class when building the document exactly when the
     document is outside the independent writer's family doc_ok *)
  let j3 := Bool.eqb (doc_ok T doc) (negb known) in
  ret (code_if j1 1 ++ code_if j2 2 ++ code_if j3 3)%list.

(* "CLOSE" document-tree k n (kind value)* scan_after_close err_is_closed :
   Scanner.Close after k objects (osmxml/scanner.go Close/Scan/Err): model = the first k objects of
   the scan; property: no object after Close, Err = ErrScannerClosed *)
Definition scan_then_close (doc : xml) (k : nat) : list (string * value) := firstn k (fst (scan_el gen_schema doc)).

Definition check_close : P (list Z) :=
  doc <- pxml 64 ;; k <- pnat ;; got <- plist pobj ;; after <- pbool ;; closed <- pbool ;;
  let j1 := objs_eqb (scan_then_close doc k) got in
  let j2 := negb after && closed && Nat.eqb (List.length got) k in
  ret (code_if j1 1 ++ code_if j2 2)%list.

Definition check : P (list Z) :=
  T <- pstring ;;
  if String.eqb T "BIG" then check_big
  else if String.eqb T "CLOSE" then check_close
  else check_doc T.

Definition check_case (t : toks) : list Z :=
  match parse_all check t with
  | Some l => l
  | None => [0]
  end.
