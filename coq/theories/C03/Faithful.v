(* C03/Faithful.v — decode_faithful and scanner_eq_decode on the schema regenerated from /repo:
   for the document the (model) writer produces for a well-formed value, with any noise —
   unknown attributes anywhere, unknown elements (whole subtrees of unknown names) anywhere —
   the whole-document decoder returns the value written, and the streaming scanner returns the
   document-order flattening of that value. *)
From Coq Require Import List String Bool ZArith.
From Verif Require Import Codec.Schema Codec.Value Codec.Xml Codec.Wf Codec.Scan Codec.ProofsScan
     C03.Noise C04.Refuted C04.Roundtrip.
From VerifGen Require Import GenSchema.
Import ListNotations.
Open Scope string_scope.

(* every attribute, element and parent name of the schema, and the names the hand-written
   decoders test *)
Definition vocab (s : schema) : list string :=
  flat_map (fun d => flat_map (fun f => eff_name s f :: x_parents (f_xml f)) (struct_fields d)) s
  ++ ["type"; "old"; "new"; "node"; "way"; "relation"].

Definition gen_vocab : list string := Eval vm_compute in vocab gen_schema.

(* a name is unknown when the schema does not use it and it is not, in any letter case, one of
   the scanner's object names *)
Definition unknown_gen (nm : string) : bool :=
  negb (existsb (String.eqb nm) gen_vocab)
  && match assoc_str scan_kinds (lower_ascii nm) with None => true | Some _ => false end.

Lemma gen_closed : closed gen_schema unknown_gen = true.
Proof. vm_compute. reflexivity. Qed.

Lemma gen_kinds_known : kinds_known unknown_gen.
Proof.
  intros nm H. unfold unknown_gen in H. apply andb_true_iff in H. destruct H as [_ H].
  destruct (assoc_str scan_kinds (lower_ascii nm)); [discriminate | reflexivity].
Qed.

Definition gnoise := noise unknown_gen.

(* the document-order flattening of a decoded value *)
Definition flatten (T : string) (v : value) : list obj :=
  if String.eqb T "OSM" then osm_objects (d_of "OSM") v
  else if String.eqb T "Change" then change_objects (d_of "Change") (d_of "OSM") v
  else if String.eqb T "Diff" then diff_objects (d_of "Diff") (d_of "Action") (d_of "OSM") v
  else [(T, v)].

Definition doc_types : list string :=
  ["Node"; "Way"; "Relation"; "Changeset"; "Note"; "User"; "Bounds"; "OSM"; "Change"; "Diff"].

(* the canonical document of a value exists, decodes to the value, scans to its flattening *)
Lemma canonical : forall T v, In T doc_types -> wfb gen_schema T v = true ->
  exists e, encode1 gen_schema T v = Ok e /\ decode gen_schema T e = Ok v
            /\ scan_el gen_schema e = (flatten T v, None).
Proof.
  intros T v Hin Hwf. cbn [doc_types In] in Hin.
  repeat (destruct Hin as [<-|Hin]);
    try (match goal with |- context[encode1 gen_schema ?T0 v] =>
           let nm := eval vm_compute in (match assoc_str (map (fun p => (fst p, snd p)) top_objects) T0 with Some n => n | None => "" end) in
           destruct (roundtrip_object T0 nm v ltac:(cbn; tauto) Hwf) as [e [He [Hd _]]];
           destruct (scanner_reads_object T0 nm v ltac:(cbn; tauto) Hwf) as [e2 [He2 Hs]];
           rewrite He in He2; inversion He2; subst e2;
           exists e; split; [exact He | split; [exact Hd | exact Hs]] end).
  - destruct (roundtrip_OSM v Hwf) as [e [He [Hd _]]]. destruct (scanner_reads_OSM v Hwf) as [e2 [He2 Hs]].
    rewrite He in He2. inversion He2; subst e2. exists e. split; [exact He | split; [exact Hd | exact Hs]].
  - destruct (roundtrip_Change v Hwf) as [e [He [Hd _]]]. destruct (scanner_reads_Change v Hwf) as [e2 [He2 Hs]].
    rewrite He in He2. inversion He2; subst e2. exists e. split; [exact He | split; [exact Hd | exact Hs]].
  - destruct (roundtrip_Diff v Hwf) as [e [He [Hd _]]]. destruct (scanner_reads_Diff v Hwf) as [e2 [He2 Hs]].
    rewrite He in He2. inversion He2; subst e2. exists e. split; [exact He | split; [exact Hd | exact Hs]].
  - contradiction.
Qed.

Theorem decode_faithful_gen : forall T v doc e,
  In T doc_types -> wfb gen_schema T v = true ->
  encode1 gen_schema T v = Ok e -> gnoise e doc ->
  decode gen_schema T doc = Ok v.
Proof.
  intros T v doc e Hin Hwf He Hn. destruct (canonical T v Hin Hwf) as [e0 [He0 [Hd _]]].
  rewrite He in He0. inversion He0; subst e0.
  rewrite (noise_decode gen_schema unknown_gen T e doc gen_closed Hn). exact Hd.
Qed.

Theorem scanner_eq_decode_gen : forall T v doc e,
  In T doc_types -> wfb gen_schema T v = true ->
  encode1 gen_schema T v = Ok e -> gnoise e doc ->
  decode gen_schema T doc = Ok v /\ scan_el gen_schema doc = (flatten T v, None).
Proof.
  intros T v doc e Hin Hwf He Hn. split; [exact (decode_faithful_gen T v doc e Hin Hwf He Hn)|].
  destruct (canonical T v Hin Hwf) as [e0 [He0 [_ Hs]]]. rewrite He in He0. inversion He0; subst e0.
  rewrite (proj1 (noise_scan gen_schema unknown_gen gen_closed gen_kinds_known) e doc Hn). exact Hs.
Qed.

(* non-vacuity: a noisy document *)
Definition nv_node : value := Eval vm_compute in
  mk gen_schema "Node" [("ID", VInt 7); ("Lat", VFloat 128); ("Visible", VBool true)].
Definition nv_doc : xml := Eval vm_compute in
  match encode1 gen_schema "Node" nv_node with
  | Ok (Elem n a k t) =>
      Elem n (("zzattr", AStr [1%Z]) :: a ++ [("x-extra", AInt 5)])
           (Elem "zzfoo" [("id", AInt 9)] [Elem "remark" [] [] (AStr [])] (AStr [2%Z]) :: k) t
  | _ => Elem "" [] [] (AStr [])
  end.

Example nv_unknowns : unknown_gen "zzattr" = true /\ unknown_gen "x-extra" = true /\ unknown_gen "zzfoo" = true
                      /\ unknown_gen "remark" = true /\ unknown_gen "id" = false /\ unknown_gen "Node" = false.
Proof. repeat split; vm_compute; reflexivity. Qed.

Example nv_decodes : decode gen_schema "Node" nv_doc = Ok nv_node /\ scan_el gen_schema nv_doc = ([("Node", nv_node)], None).
Proof. split; vm_compute; reflexivity. Qed.

(* ---------- children of an <osm> document in any order ---------- *)
From Verif Require Import Codec.ProofsKids Codec.ProofsContainers.

Theorem osm_any_child_order : forall v,
  wfb gen_schema "OSM" v = true ->
  exists al kids,
    encode1 gen_schema "OSM" v = Ok (Elem "osm" al kids (AStr []))
    /\ forall kids' t, same_per_field gen_schema (struct_fields (d_of "OSM")) kids kids' ->
                      decode gen_schema "OSM" (Elem "osm" al kids' t) = Ok v.
Proof.
  intros v Hwf. destruct containers_static as (H1 & H2 & H3 & H4 & H5 & H6).
  exact (decode_osm_any_order gen_schema (d_of "OSM") v H1 H3 H4 Hwf).
Qed.

Definition list_eqb_xmlname (a b : list xml) : bool :=
  Nat.eqb (List.length a) (List.length b) && forallb (fun p => String.eqb (xname (fst p)) (xname (snd p))) (combine a b).

(* non-vacuity: node, way, node with an unknown element and a foreign known name in between *)
Definition nv_osm : value := Eval vm_compute in
  mk gen_schema "OSM" [("Nodes", VList [VPtr (Some (w_node 1)); VPtr (Some (w_node 2))]);
                       ("Ways", VList [VPtr (Some (mk gen_schema "Way" [("ID", VInt 5)]))])].
Definition nv_osm_kids : list xml := Eval vm_compute in
  match encode1 gen_schema "OSM" nv_osm with Ok (Elem _ _ k _) => k | _ => [] end.
Definition nv_osm_shuffled : list xml := Eval vm_compute in
  match nv_osm_kids with
  | [n1; n2; w] => [n1; Elem "zzfoo" [] [] (AStr []); w; Elem "tag" [("k", AStr [])] [] (AStr []); n2]
  | _ => []
  end.
Example nv_osm_order :
  List.length nv_osm_shuffled = 5%nat /\
  forallb (fun f => list_eqb_xmlname (filter (fun c => key_hit gen_schema f (xname c)) nv_osm_shuffled)
                                     (filter (fun c => key_hit gen_schema f (xname c)) nv_osm_kids))
          (struct_fields (d_of "OSM")) = true /\
  decode gen_schema "OSM" (Elem "osm" [] nv_osm_shuffled (AStr [])) = Ok nv_osm.
Proof. repeat split; vm_compute; reflexivity. Qed.
