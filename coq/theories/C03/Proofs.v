(* C03/Proofs.v — lemmas for faithful decoding: unknown attributes and unknown child elements
   do not influence the struct decoder (all structs, all fuels, all positions), and the boundary
   example showing why unknown elements must not wrap object elements. *)
From Coq Require Import List String Bool ZArith Permutation.
From Verif Require Import Codec.Schema Codec.Value Codec.Xml Codec.Scan Codec.ProofsAttr C03.Spec.
From VerifGen Require Import GenSchema.
Import ListNotations.
Open Scope string_scope.
Open Scope list_scope.

Section Ignore.
Variable sch : schema.

Lemma unmarshal_attr_nohit : forall fs vs an a,
  List.length fs = List.length vs ->
  (forall f, In f fs -> attr_hit sch f an = false) ->
  unmarshal_attr sch fs vs an a = Ok vs.
Proof.
  induction fs as [|f fs IH]; intros vs an a Hl Hno; destruct vs as [|v vs]; try discriminate; [reflexivity|].
  cbn [unmarshal_attr]. rewrite IH; [|cbn in Hl; congruence | intros g Hg; apply Hno; right; exact Hg].
  cbn [rbind]. pose proof (Hno f (or_introl eq_refl)) as Hf. unfold attr_hit in Hf. rewrite Hf. reflexivity.
Qed.

Lemma unmarshal_attr_length : forall fs vs an a vs',
  unmarshal_attr sch fs vs an a = Ok vs' -> List.length vs' = List.length vs.
Proof.
  induction fs as [|f fs IH]; intros vs an a vs' H; destruct vs as [|v vs]; cbn [unmarshal_attr] in H; try discriminate.
  - injection H as <-. reflexivity.
  - destruct (unmarshal_attr sch fs vs an a) as [rest|e] eqn:Hr; cbn [rbind] in H; [|discriminate].
    apply IH in Hr.
    destruct (is_attr f && String.eqb (eff_name sch f) an).
    + destruct (attr_value sch AFUEL (f_type f) a); cbn [rbind] in H; [|discriminate].
      injection H as <-. simpl. f_equal. exact Hr.
    + injection H as <-. simpl. f_equal. exact Hr.
Qed.

Lemma unmarshal_attrs_length : forall al fs vs vs',
  unmarshal_attrs sch fs vs al = Ok vs' -> List.length vs' = List.length vs.
Proof.
  induction al as [|[an a] r IH]; intros fs vs vs' H; cbn [unmarshal_attrs] in H.
  - injection H as <-. reflexivity.
  - destruct (unmarshal_attr sch fs vs an a) as [v1|e] eqn:H1; cbn [rbind] in H; [|discriminate].
    rewrite (IH _ _ _ H). exact (unmarshal_attr_length _ _ _ _ _ H1).
Qed.

(* an attribute that is no attr field's name can be removed from (or added to) the start
   element at any position without changing what the decoder stores *)
Lemma unknown_attr_ignored_gen : forall a1 fs vs an a a2,
  List.length fs = List.length vs ->
  (forall f, In f fs -> attr_hit sch f an = false) ->
  unmarshal_attrs sch fs vs (a1 ++ (an, a) :: a2) = unmarshal_attrs sch fs vs (a1 ++ a2).
Proof.
  induction a1 as [|[bn b] r IH]; intros fs vs an a a2 Hl Hno.
  - cbn [app unmarshal_attrs]. rewrite unmarshal_attr_nohit by assumption. reflexivity.
  - cbn [app unmarshal_attrs]. destruct (unmarshal_attr sch fs vs bn b) as [v1|e] eqn:H1; cbn [rbind]; [|reflexivity].
    apply IH; [|exact Hno]. rewrite (unmarshal_attr_length _ _ _ _ _ H1). exact Hl.
Qed.

(* ---------- attribute order ---------- *)
Lemma unmarshal_attr_swap : forall fs vs an a bn b v1 v2,
  an <> bn ->
  unmarshal_attr sch fs vs an a = Ok v1 -> unmarshal_attr sch fs v1 bn b = Ok v2 ->
  exists v1', unmarshal_attr sch fs vs bn b = Ok v1' /\ unmarshal_attr sch fs v1' an a = Ok v2.
Proof.
  induction fs as [|f fs IH]; intros vs an a bn b v1 v2 Hne H1 H2; destruct vs as [|v vs]; cbn [unmarshal_attr] in H1; try discriminate.
  - injection H1 as <-. cbn [unmarshal_attr] in H2. injection H2 as <-. exists []. split; reflexivity.
  - destruct (unmarshal_attr sch fs vs an a) as [r1|e] eqn:E1; cbn [rbind] in H1; [|discriminate].
    destruct (is_attr f && String.eqb (eff_name sch f) an) eqn:Ha.
    + destruct (attr_value sch AFUEL (f_type f) a) as [va|e] eqn:Eva; cbn [rbind] in H1; [|discriminate]. injection H1 as <-.
      cbn [unmarshal_attr] in H2.
      destruct (unmarshal_attr sch fs r1 bn b) as [r2|e] eqn:E2; cbn [rbind] in H2; [|discriminate].
      assert (Hb : (is_attr f && String.eqb (eff_name sch f) bn) = false).
      { apply andb_true_iff in Ha. destruct Ha as [Hi Hn]. rewrite Hi. cbn [andb]. apply String.eqb_eq in Hn.
        apply String.eqb_neq. congruence. }
      rewrite Hb in H2. injection H2 as <-.
      destruct (IH vs an a bn b r1 r2 Hne E1 E2) as [r1' [E1' E2']].
      exists (v :: r1'). cbn [unmarshal_attr]. rewrite E1', Hb. cbn [rbind]. split; [reflexivity|].
      rewrite E2', Ha. cbn [rbind]. rewrite Eva. reflexivity.
    + injection H1 as <-. cbn [unmarshal_attr] in H2.
      destruct (unmarshal_attr sch fs r1 bn b) as [r2|e] eqn:E2; cbn [rbind] in H2; [|discriminate].
      destruct (IH vs an a bn b r1 r2 Hne E1 E2) as [r1' [E1' E2']].
      destruct (is_attr f && String.eqb (eff_name sch f) bn) eqn:Hb.
      * destruct (attr_value sch AFUEL (f_type f) b) as [vb|e] eqn:Evb; cbn [rbind] in H2; [|discriminate]. injection H2 as <-.
        exists (vb :: r1'). cbn [unmarshal_attr]. rewrite E1', Hb. cbn [rbind]. rewrite Evb. split; [reflexivity|].
        rewrite E2', Ha. reflexivity.
      * injection H2 as <-. exists (v :: r1'). cbn [unmarshal_attr]. rewrite E1', Hb. cbn [rbind]. split; [reflexivity|].
        rewrite E2', Ha. reflexivity.
Qed.

(* any order of attributes with pairwise different names gives the same decoded fields *)
Lemma unmarshal_attrs_perm : forall al al', Permutation al al' -> NoDup (map fst al) ->
  forall fs vs r, unmarshal_attrs sch fs vs al = Ok r -> unmarshal_attrs sch fs vs al' = Ok r.
Proof.
  intros al al' Hp. induction Hp as [|[xn xa] l l' Hp IH|[xn xa] [yn ya] l|l l' l'' Hp1 IH1 Hp2 IH2]; intros Hnd fs vs r H.
  - exact H.
  - cbn [unmarshal_attrs] in *. destruct (unmarshal_attr sch fs vs xn xa) as [v1|e]; cbn [rbind] in *; [|discriminate].
    cbn [map] in Hnd. inversion Hnd; subst. apply IH; assumption.
  - cbn [unmarshal_attrs] in *.
    destruct (unmarshal_attr sch fs vs yn ya) as [v1|e] eqn:E1; cbn [rbind] in H; [|discriminate].
    destruct (unmarshal_attr sch fs v1 xn xa) as [v2|e] eqn:E2; cbn [rbind] in H; [|discriminate].
    assert (Hne : yn <> xn).
    { cbn [map fst] in Hnd. inversion Hnd as [|? ? Hni _]; subst. intros ->. apply Hni. left. reflexivity. }
    destruct (unmarshal_attr_swap fs vs yn ya xn xa v1 v2 Hne E1 E2) as [v1' [E1' E2']].
    rewrite E1'. cbn [rbind]. rewrite E2'. cbn [rbind]. exact H.
  - apply IH2; [|apply IH1; assumption].
    apply (Permutation_NoDup (Permutation_map fst Hp1)). exact Hnd.
Qed.

(* ---------- unknown child elements ---------- *)
Variable unm : gotype -> value -> xml -> result value.

Lemma route_length : forall fs vs path c vs',
  route sch unm fs vs path c = Ok (inl (Some vs')) -> List.length vs' = List.length vs.
Proof.
  induction fs as [|f fs IH]; intros vs path c vs' H; destruct vs as [|v vs]; cbn [route] in H; try discriminate.
  destruct (path_match sch f path (xname c)).
  - destruct (unm (f_type f) v c); cbn [rbind] in H; [|discriminate]. injection H as <-. reflexivity.
  - discriminate.
  - destruct (route sch unm fs vs path c) as [[[vs''|]|p]|e] eqn:Hr; cbn [rbind] in H; try discriminate.
    injection H as <-. cbn. f_equal. exact (IH _ _ _ _ Hr).
Qed.

Lemma route_nohit : forall fs vs path c,
  (forall f, In f fs -> path_match sch f path (xname c) = PNone) ->
  List.length fs = List.length vs ->
  route sch unm fs vs path c = Ok (inl None).
Proof.
  induction fs as [|f fs IH]; intros vs path c Hno Hl; destruct vs as [|v vs]; try discriminate; [reflexivity|].
  cbn [route]. rewrite (Hno f (or_introl eq_refl)).
  rewrite IH; [reflexivity | intros g Hg; apply Hno; right; exact Hg | cbn in Hl; congruence].
Qed.

Lemma gkids_length : forall g fs vs p vs',
  unmarshal_gkids sch unm fs vs p g = Ok vs' -> List.length vs' = List.length vs.
Proof.
  induction g as [|gc g IH]; intros fs vs p vs' H; cbn [unmarshal_gkids] in H.
  - injection H as <-. reflexivity.
  - destruct (route sch unm fs vs p gc) as [[[vs1|]|q]|e] eqn:Hr; cbn [rbind] in H; try discriminate.
    + rewrite (IH _ _ _ _ H). exact (route_length _ _ _ _ _ Hr).
    + exact (IH _ _ _ _ H).
Qed.

(* an element that no element field of the struct matches (an unknown element) can be inserted
   anywhere among the children without changing what the decoder stores *)
Lemma unknown_child_ignored_gen : forall k1 fs vs c k2,
  (forall f, In f fs -> path_match sch f [] (xname c) = PNone) ->
  List.length fs = List.length vs ->
  unmarshal_kids sch unm fs vs [] false (k1 ++ c :: k2) = unmarshal_kids sch unm fs vs [] false (k1 ++ k2).
Proof.
  induction k1 as [|a k1 IH]; intros fs vs c k2 Hno Hl.
  - cbn [app unmarshal_kids]. rewrite route_nohit by assumption. reflexivity.
  - cbn [app unmarshal_kids].
    destruct (route sch unm fs vs [] a) as [[[vs1|]|q]|e] eqn:Hr; cbn [rbind]; try reflexivity.
    + apply IH; [exact Hno|]. rewrite (route_length _ _ _ _ _ Hr). exact Hl.
    + apply IH; assumption.
    + destruct (unmarshal_gkids sch unm fs vs q (xkids a)) as [vs1|e] eqn:Hg; cbn [rbind]; [|reflexivity].
      apply IH; [exact Hno|]. rewrite (gkids_length _ _ _ _ _ Hg). exact Hl.
Qed.

End Ignore.

Definition wrapped_node_doc : xml :=
  Elem "osm" [] [Elem "wrapper" [] [Elem "node" [("id", AInt 1)] [] (AStr [])] (AStr [])] (AStr []).

(* an element named like an object kind up to ASCII case: the decoder ignores it, the scanner
   stops with an error (or, for Bounds, yields an object the decoder does not have) *)
Definition case_variant_doc : xml :=
  Elem "osm" [] [Elem "Node" [("id", AInt 5)] [] (AStr []); Elem "node" [("id", AInt 1)] [] (AStr [])] (AStr []).
Definition case_bounds_doc : xml :=
  Elem "osm" [] [Elem "Bounds" [("minlat", AFloat 128)] [] (AStr [])] (AStr []).

Lemma scanner_case_fold :
  (match decode gen_schema "OSM" case_variant_doc with Ok _ => true | Err _ => false end = true
   /\ scan_el gen_schema case_variant_doc = ([], Some EName))
  /\ (decode gen_schema "OSM" case_bounds_doc = Ok (zero gen_schema FUEL (TNamed "OSM"))
      /\ map fst (fst (scan_el gen_schema case_bounds_doc)) = ["Bounds"]).
Proof. repeat split; vm_compute; reflexivity. Qed.

Lemma scanner_descends_unknown :
  exists doc, doc_ok "OSM" doc = false /\
              fst (scan_el gen_schema doc) <> [] /\
              decode gen_schema "OSM" doc = Ok (zero gen_schema FUEL (TNamed "OSM")).
Proof.
  exists wrapped_node_doc. split; [vm_compute; reflexivity|].
  split; [vm_compute; discriminate | vm_compute; reflexivity].
Qed.

(* an interleaved osmChange: create, modify, create — the decoder accumulates both create
   blocks, the scanner yields the three nodes in document order *)
Definition nd (i : Z) : xml := Elem "node" [("id", AInt i)] [] (AStr []).
Definition interleaved_doc : xml :=
  Elem "osmChange" [("version", AStr [48])]
       [Elem "create" [] [nd 1] (AStr []); Elem "modify" [] [nd 2] (AStr []); Elem "create" [] [nd 3] (AStr [])]
       (AStr []).

Definition node_ids (l : list obj) : list value :=
  map (fun o => match snd o with VStruct (i :: _) => i | x => x end) l.

Definition go_field (T : string) (v : value) (nm : string) : value :=
  match lookup_type gen_schema T, v with
  | Some d, VStruct vs => match fget_go (struct_fields d) vs nm with Some (_, x) => x | None => VOpaque end
  | _, _ => VOpaque
  end.
Definition block_node_ids (change : value) (blk : string) : list value :=
  match go_field "Change" change blk with
  | VPtr (Some o) => match go_field "OSM" o "Nodes" with
                     | VList l => map (fun p => match p with VPtr (Some n) => go_field "Node" n "ID" | x => x end) l
                     | _ => []
                     end
  | _ => []
  end.

Lemma interleaved_blocks_example :
  doc_ok "Change" interleaved_doc = true /\
  node_ids (fst (scan_el gen_schema interleaved_doc)) = [VInt 1; VInt 2; VInt 3] /\
  (* both create blocks accumulate into Create (nodes 1 and 3), Modify holds node 2 *)
  match decode gen_schema "Change" interleaved_doc with
  | Ok v => (block_node_ids v "Create", block_node_ids v "Modify", block_node_ids v "Delete")
  | Err _ => ([], [], [])
  end = ([VInt 1; VInt 3], [VInt 2], []).
Proof. split; [|split]; vm_compute; reflexivity. Qed.
