(* C03/Proofs.v *)
From Coq Require Import List String Bool ZArith.
From Verif Require Import Codec.Schema Codec.Value Codec.Xml Codec.Scan C03.Spec.
From VerifGen Require Import GenSchema.
Import ListNotations.
Open Scope string_scope.

Definition wrapped_node_doc : xml :=
  Elem "osm" [] [Elem "wrapper" [] [Elem "node" [("id", AInt 1)] [] (AStr [])] (AStr [])] (AStr []).

Lemma scanner_descends_unknown :
  exists doc, doc_ok "OSM" doc = false /\
              fst (scan_el gen_schema doc) <> [] /\
              decode gen_schema "OSM" doc = Ok (zero gen_schema FUEL (TNamed "OSM")).
Proof.
  exists wrapped_node_doc. split; [vm_compute; reflexivity|].
  split; [vm_compute; discriminate | vm_compute; reflexivity].
Qed.
