(* C03/Noise.v — the noise relation on document trees and its invariance theorems.

   [noise e e'] : e' is e with extra attributes whose names are unknown inserted anywhere in any
   start element, and extra elements inserted anywhere among any children, provided the
   whole subtree of an extra element uses only unknown element names.  "Unknown" is a
   parameter: a predicate on names under which no attribute / element / parent name of the
   schema, none of the names the hand-written decoders test, and no scanner kind (in any letter
   case) is unknown — [closed], evaluated by vm_compute on the regenerated schema.
   Text (the concatenated character data of an element) is kept: comments, whitespace, escapes
   are below the tree model.

   Theorems: the whole-document decoder and the streaming scanner return the same on e' as on e. *)
From Coq Require Import List String Bool ZArith Lia.
From Verif Require Import Codec.Schema Codec.Value Codec.Xml Codec.Scan Codec.ProofsAttr Codec.ProofsKids
     Codec.ProofsSteps C03.Proofs.
Import ListNotations.
Open Scope string_scope.
Open Scope list_scope.

Section Noise.
Variable sch : schema.
Variable unknown : string -> bool.

Fixpoint all_unknown (e : xml) : bool :=
  match e with
  | Elem nm _ kids _ =>
      unknown nm && (fix go (l : list xml) : bool :=
                       match l with [] => true | k :: r => all_unknown k && go r end) kids
  end.

Inductive attrs_noise : list (string * atom) -> list (string * atom) -> Prop :=
| AN_nil : attrs_noise [] []
| AN_keep : forall a l l', attrs_noise l l' -> attrs_noise (a :: l) (a :: l')
| AN_extra : forall nm a l l', unknown nm = true -> attrs_noise l l' -> attrs_noise l ((nm, a) :: l').

Inductive noise : xml -> xml -> Prop :=
| N_el : forall nm at_ at' ks ks' t,
    attrs_noise at_ at' -> kids_noise ks ks' -> noise (Elem nm at_ ks t) (Elem nm at' ks' t)
with kids_noise : list xml -> list xml -> Prop :=
| KN_nil : kids_noise [] []
| KN_keep : forall c c' l l', noise c c' -> kids_noise l l' -> kids_noise (c :: l) (c' :: l')
| KN_extra : forall x l l', all_unknown x = true -> kids_noise l l' -> kids_noise l (x :: l').

Scheme noise_ind2 := Induction for noise Sort Prop
  with kids_noise_ind2 := Induction for kids_noise Sort Prop.
Combined Scheme noise_mutind from noise_ind2, kids_noise_ind2.

Lemma noise_name : forall e e', noise e e' -> xname e' = xname e.
Proof. intros e e' H. destruct H. reflexivity. Qed.
Lemma noise_text : forall e e', noise e e' -> xtext e' = xtext e.
Proof. intros e e' H. destruct H. reflexivity. Qed.
Lemma noise_attrs : forall e e', noise e e' -> attrs_noise (xattrs e) (xattrs e').
Proof. intros e e' H. destruct H. assumption. Qed.
Lemma noise_kids : forall e e', noise e e' -> kids_noise (xkids e) (xkids e').
Proof. intros e e' H. destruct H. assumption. Qed.

(* ---------- the schema does not use unknown names ---------- *)
Definition field_closed (f : field) : bool :=
  negb (unknown (eff_name sch f)) && forallb (fun p => negb (unknown p)) (x_parents (f_xml f)).

Definition closed : bool :=
  forallb (fun d => forallb field_closed (struct_fields d)) sch
  && forallb (fun nm => negb (unknown nm)) ["type"; "old"; "new"; "node"; "way"; "relation"].

Definition fields_closed (fs : list field) : Prop := forall f, In f fs -> field_closed f = true.

Lemma attr_hit_unknown : forall f nm, field_closed f = true -> unknown nm = true -> attr_hit sch f nm = false.
Proof.
  intros f nm Hc Hu. unfold attr_hit. destruct (is_attr f); [cbn [andb] | reflexivity].
  destruct (String.eqb (eff_name sch f) nm) eqn:E; [|reflexivity]. apply String.eqb_eq in E.
  unfold field_closed in Hc. apply andb_true_iff in Hc. destruct Hc as [Hc _]. rewrite E, Hu in Hc. discriminate.
Qed.

Lemma is_prefix_in : forall path ps, is_prefix path ps = true -> forall n p, nth_error ps n = Some p -> True.
Proof. intros; exact I. Qed.

Lemma path_match_unknown : forall f path nm,
  field_closed f = true -> unknown nm = true -> path_match sch f path nm = PNone.
Proof.
  intros f path nm Hc Hu. unfold path_match. destruct (is_elem f); [cbn [negb] | reflexivity].
  destruct (negb (is_prefix path (x_parents (f_xml f)))); [reflexivity|].
  unfold field_closed in Hc. apply andb_true_iff in Hc. destruct Hc as [Hn Hp].
  destruct (Nat.eqb (List.length (x_parents (f_xml f))) (List.length path)).
  - destruct (String.eqb (eff_name sch f) nm) eqn:E; [|reflexivity]. apply String.eqb_eq in E. rewrite E, Hu in Hn. discriminate.
  - destruct (nth_error (x_parents (f_xml f)) (List.length path)) as [p|] eqn:En; [|reflexivity].
    destruct (String.eqb p nm) eqn:E; [|reflexivity]. apply String.eqb_eq in E. subst p.
    apply nth_error_In in En. rewrite forallb_forall in Hp. specialize (Hp nm En). rewrite Hu in Hp. discriminate.
Qed.

(* ---------- attributes ---------- *)
Lemma attrs_noise_unmarshal : forall at_ at', attrs_noise at_ at' ->
  forall fs vs, fields_closed fs -> List.length fs = List.length vs ->
  unmarshal_attrs sch fs vs at' = unmarshal_attrs sch fs vs at_.
Proof.
  intros at_ at' H. induction H as [|[an a] l l' H IH|nm a l l' Hu H IH]; intros fs vs Hc Hl.
  - reflexivity.
  - cbn [unmarshal_attrs]. destruct (unmarshal_attr sch fs vs an a) as [vs1|e] eqn:E; cbn [rbind]; [|reflexivity].
    apply IH; [exact Hc|]. rewrite (unmarshal_attr_length sch _ _ _ _ _ E). exact Hl.
  - cbn [unmarshal_attrs]. rewrite (unmarshal_attr_nohit sch fs vs nm a Hl).
    + cbn [rbind]. apply IH; assumption.
    + intros f Hf. apply attr_hit_unknown; [apply Hc; exact Hf | exact Hu].
Qed.

Lemma attrs_noise_first : forall at_ at' nm, attrs_noise at_ at' -> unknown nm = false ->
  first_attr at' nm = first_attr at_ nm.
Proof.
  intros at_ at' nm H Hk. induction H as [|[an a] l l' H IH|n2 a l l' Hu H IH].
  - reflexivity.
  - cbn [first_attr]. rewrite IH. reflexivity.
  - cbn [first_attr]. destruct (String.eqb n2 nm) eqn:E; [|exact IH]. apply String.eqb_eq in E. subst. congruence.
Qed.

(* ---------- children of a struct element ---------- *)
Section Kids.
Variable unm : gotype -> value -> xml -> result value.

Lemma route_ext : forall fs vs path c c',
  xname c' = xname c -> (forall ty cur, unm ty cur c' = unm ty cur c) ->
  route sch unm fs vs path c' = route sch unm fs vs path c.
Proof.
  induction fs as [|f fs IH]; intros vs path c c' Hn Hu; destruct vs as [|v vs]; try reflexivity.
  cbn [route]. rewrite Hn. destruct (path_match sch f path (xname c)).
  - rewrite Hu. reflexivity.
  - reflexivity.
  - rewrite (IH vs path c c' Hn Hu). reflexivity.
Qed.

Lemma gkids_noise : forall g g', kids_noise g g' ->
  (forall c c', noise c c' -> forall ty cur, unm ty cur c' = unm ty cur c) ->
  forall fs vs p, fields_closed fs -> List.length fs = List.length vs ->
  unmarshal_gkids sch unm fs vs p g' = unmarshal_gkids sch unm fs vs p g.
Proof.
  intros g g' H Hu. induction H as [|c c' l l' Hc H IH|x l l' Hx H IH]; intros fs vs p Hcl Hl.
  - reflexivity.
  - cbn [unmarshal_gkids]. rewrite (route_ext fs vs p c c' (noise_name _ _ Hc) (Hu c c' Hc)).
    destruct (route sch unm fs vs p c) as [[[vs1|]|q]|e] eqn:Hr; cbn [rbind]; try reflexivity.
    + apply IH; [exact Hcl|]. rewrite (route_length sch unm _ _ _ _ _ Hr). exact Hl.
    + apply IH; assumption.
  - cbn [unmarshal_gkids]. rewrite (route_nohit sch unm fs vs p x); [cbn [rbind]; apply IH; assumption | | exact Hl].
    intros f Hf. destruct x as [nm a k t]. cbn [all_unknown] in Hx. apply andb_true_iff in Hx. destruct Hx as [Hx _].
    apply path_match_unknown; [apply Hcl; exact Hf | exact Hx].
Qed.

Lemma kids_noise_unmarshal : forall ks ks', kids_noise ks ks' ->
  (forall c c', noise c c' -> forall ty cur, unm ty cur c' = unm ty cur c) ->
  forall fs vs, fields_closed fs -> List.length fs = List.length vs ->
  unmarshal_kids sch unm fs vs [] false ks' = unmarshal_kids sch unm fs vs [] false ks.
Proof.
  intros ks ks' H Hu. induction H as [|c c' l l' Hc H IH|x l l' Hx H IH]; intros fs vs Hcl Hl.
  - reflexivity.
  - cbn [unmarshal_kids]. rewrite (route_ext fs vs [] c c' (noise_name _ _ Hc) (Hu c c' Hc)).
    destruct (route sch unm fs vs [] c) as [[[vs1|]|q]|e] eqn:Hr; cbn [rbind]; try reflexivity.
    + apply IH; [exact Hcl|]. rewrite (route_length sch unm _ _ _ _ _ Hr). exact Hl.
    + apply IH; assumption.
    + rewrite (gkids_noise _ _ (noise_kids _ _ Hc) Hu fs vs q Hcl Hl).
      destruct (unmarshal_gkids sch unm fs vs q (xkids c)) as [vs1|e] eqn:Hg; cbn [rbind]; [|reflexivity].
      apply IH; [exact Hcl|]. rewrite (gkids_length sch unm _ _ _ _ _ Hg). exact Hl.
  - cbn [unmarshal_kids]. rewrite (route_nohit sch unm fs vs [] x); [cbn [rbind]; apply IH; assumption | | exact Hl].
    intros f Hf. destruct x as [nm a k t]. cbn [all_unknown] in Hx. apply andb_true_iff in Hx. destruct Hx as [Hx _].
    apply path_match_unknown; [apply Hcl; exact Hf | exact Hx].
Qed.

Lemma struct_noise : forall d cur e e',
  fields_closed (struct_fields d) ->
  noise e e' ->
  (forall c c', noise c c' -> forall ty cur, unm ty cur c' = unm ty cur c) ->
  unmarshal_struct sch unm d cur e' = unmarshal_struct sch unm d cur e.
Proof.
  intros d cur e e' Hcl Hn Hu. unfold unmarshal_struct. destruct cur as [| | | | | | |vs|]; try reflexivity.
  destruct (negb (all_supported (struct_fields d))); [reflexivity|].
  destruct (Nat.eqb (List.length (struct_fields d)) (List.length vs)) eqn:Hl; cbn [negb]; [|reflexivity].
  apply Nat.eqb_eq in Hl. rewrite (noise_name _ _ Hn).
  destruct (negb (String.eqb (xmlname_tag d) "") && negb (String.eqb (xmlname_tag d) (xname e))); [reflexivity|].
  rewrite (attrs_noise_unmarshal _ _ (noise_attrs _ _ Hn) _ _ Hcl Hl).
  destruct (unmarshal_attrs sch (struct_fields d) vs (xattrs e)) as [vs1|er] eqn:Ha; cbn [rbind]; [|reflexivity].
  rewrite (kids_noise_unmarshal _ _ (noise_kids _ _ Hn) Hu _ vs1 Hcl); [reflexivity|].
  rewrite (unmarshal_attrs_length sch _ _ _ _ Ha). exact Hl.
Qed.

(* ---------- Action.UnmarshalXML ---------- *)
Variable FZ : nat.
Hypothesis Hcl : closed = true.

Lemma special_known : forall nm, In nm ["type"; "old"; "new"; "node"; "way"; "relation"] -> unknown nm = false.
Proof.
  intros nm Hin. unfold closed in Hcl. apply andb_true_iff in Hcl. destruct Hcl as [_ H].
  rewrite forallb_forall in H. specialize (H nm Hin). apply negb_true_iff in H. exact H.
Qed.

Lemma unknown_neq : forall nm s, unknown nm = true -> unknown s = false -> String.eqb nm s = false.
Proof. intros nm s H1 H2. destruct (String.eqb nm s) eqn:E; [|reflexivity]. apply String.eqb_eq in E. subst. congruence. Qed.

Lemma xml_ind2 : forall (P : xml -> Prop),
  (forall nm a kids t, Forall P kids -> P (Elem nm a kids t)) -> forall e, P e.
Proof.
  intros P H. fix IH 1. intros [nm a kids t]. apply H. induction kids as [|k r IHr]; constructor; [apply IH | exact IHr].
Qed.

Lemma walks_eq : forall d l a,
  (fix walks (a : value) (l : list xml) : result value :=
     match l with
     | [] => Ok a
     | k :: r => do a' <- action_walk sch unm FZ d a k; walks a' r
     end) a l = action_walks sch unm FZ d a l.
Proof. intros d l. induction l as [|k r IH]; intros a; [reflexivity|]. cbn [action_walks]. destruct (action_walk sch unm FZ d a k); cbn [rbind]; [apply IH | reflexivity]. Qed.

Lemma action_walk_unknown : forall x, all_unknown x = true -> forall d a, action_walk sch unm FZ d a x = Ok a.
Proof.
  intros x. induction x as [nm at_ kids t IH] using xml_ind2. intros Hx d a. cbn [all_unknown] in Hx.
  apply andb_true_iff in Hx. destruct Hx as [Hn Hk]. cbn [action_walk].
  rewrite (unknown_neq nm "old" Hn (special_known "old" ltac:(cbn; tauto))).
  rewrite (unknown_neq nm "new" Hn (special_known "new" ltac:(cbn; tauto))).
  rewrite (unknown_neq nm "node" Hn (special_known "node" ltac:(cbn; tauto))).
  rewrite (unknown_neq nm "way" Hn (special_known "way" ltac:(cbn; tauto))).
  rewrite (unknown_neq nm "relation" Hn (special_known "relation" ltac:(cbn; tauto))).
  rewrite walks_eq. clear Hn. revert a. induction kids as [|k r IHr]; intros a; [reflexivity|].
  apply andb_true_iff in Hk. destruct Hk as [Hk1 Hk2]. inversion IH as [|? ? IH1 IH2]; subst.
  cbn [action_walks]. rewrite (IH1 Hk1 d a). cbn [rbind]. exact (IHr IH2 Hk2 a).
Qed.

Hypothesis Hu : forall c c', noise c c' -> forall ty cur, unm ty cur c' = unm ty cur c.

Lemma action_noise :
  (forall c c', noise c c' -> forall d a, action_walk sch unm FZ d a c' = action_walk sch unm FZ d a c)
  /\ (forall l l', kids_noise l l' -> forall d a, action_walks sch unm FZ d a l' = action_walks sch unm FZ d a l).
Proof.
  apply noise_mutind.
  - intros nm at_ at' ks ks' t Ha Hk IHk d a.
    pose proof (N_el nm at_ at' ks ks' t Ha Hk) as Hn. cbn [action_walk].
    rewrite !(Hu _ _ Hn). rewrite !walks_eq. rewrite IHk. reflexivity.
  - intros d a. reflexivity.
  - intros c c' l l' Hc IHc Hl IHl d a. cbn [action_walks]. rewrite IHc.
    destruct (action_walk sch unm FZ d a c); cbn [rbind]; [apply IHl | reflexivity].
  - intros x l l' Hx Hl IHl d a. cbn [action_walks]. rewrite (action_walk_unknown x Hx). cbn [rbind]. apply IHl.
Qed.

Lemma hook_noise : forall d cur e e', noise e e' ->
  hook_unmarshal sch unm FZ d cur e' = hook_unmarshal sch unm FZ d cur e.
Proof.
  intros d cur e e' Hn. unfold hook_unmarshal, date_unmarshal, action_unmarshal.
  rewrite (noise_text _ _ Hn).
  rewrite (attrs_noise_first _ _ "type" (noise_attrs _ _ Hn) (special_known "type" ltac:(cbn; tauto))).
  destruct (String.eqb (t_name d) "Date"); [reflexivity|]. destruct (String.eqb (t_name d) "Action"); [|reflexivity].
  destruct (match first_attr (xattrs e) "type" with
            | Some (AStr t) => set_fld d cur "Type" (VStr t)
            | Some _ => Err EAtom
            | None => Ok cur
            end); cbn [rbind]; [|reflexivity].
  apply (proj2 action_noise). exact (noise_kids _ _ Hn).
Qed.

End Kids.
(* ---------- the decoder ---------- *)
Lemma lookup_in : forall s n d, lookup_type s n = Some d -> In d s.
Proof.
  induction s as [|d0 s IH]; intros n d H; [discriminate|]. cbn [lookup_type] in H.
  destruct (String.eqb (t_name d0) n); [inversion H; left; reflexivity | right; exact (IH _ _ H)].
Qed.

Lemma resolve_struct_in : forall n ty d, resolve sch n ty = RStruct d -> In d sch.
Proof.
  induction n as [|n IH]; intros ty d H; [discriminate|]. cbn [resolve] in H.
  destruct ty; try discriminate.
  - destruct (lookup_type sch n0) as [d0|] eqn:El; [|discriminate].
    destruct (t_under d0) eqn:Eu.
    + inversion H; subst. exact (lookup_in _ _ _ El).
    + exact (IH _ _ H).
  - exact (IH _ _ H).
Qed.

Lemma closed_fields : closed = true -> forall d, In d sch -> fields_closed (struct_fields d).
Proof.
  intros Hcl d Hd f Hf. unfold closed in Hcl. apply andb_true_iff in Hcl. destruct Hcl as [H _].
  rewrite forallb_forall in H. specialize (H d Hd). rewrite forallb_forall in H. exact (H f Hf).
Qed.

Lemma step_noise : forall unm fz ty cur e e',
  closed = true ->
  (forall c c', noise c c' -> forall ty cur, unm ty cur c' = unm ty cur c) ->
  noise e e' ->
  unmarshal_step sch unm fz ty cur e' = unmarshal_step sch unm fz ty cur e.
Proof.
  intros unm fz ty cur e e' Hcl Hu Hn. unfold unmarshal_step.
  destruct (rk sch ty) eqn:Hk;
    try (destruct (unmarshal_hook sch ty) as [d0|]; [apply (hook_noise unm fz Hcl Hu); exact Hn|];
         rewrite ?(noise_text _ _ Hn); destruct cur; reflexivity).
  - destruct cur as [| | | | |[c0|]| | |]; try reflexivity; rewrite (Hu _ _ Hn); reflexivity.
  - destruct (unmarshal_hook sch ty) as [d0|]; [apply (hook_noise unm fz Hcl Hu); exact Hn|].
    destruct cur; try reflexivity. rewrite (Hu _ _ Hn). reflexivity.
  - destruct (unmarshal_hook sch ty) as [d0|]; [apply (hook_noise unm fz Hcl Hu); exact Hn|].
    apply struct_noise; [|exact Hn | exact Hu]. apply (closed_fields Hcl). exact (resolve_struct_in _ _ _ Hk).
Qed.

Theorem noise_unmarshal : forall fz m ty cur e e',
  closed = true -> noise e e' ->
  unmarshal sch fz m ty cur e' = unmarshal sch fz m ty cur e.
Proof.
  intros fz m. induction m as [|m IH]; intros ty cur e e' Hcl Hn; [reflexivity|].
  cbn [unmarshal]. apply step_noise; [exact Hcl | | exact Hn].
  intros c c' Hc ty0 cur0. apply IH; assumption.
Qed.

Corollary noise_decode : forall T e e', closed = true -> noise e e' -> decode sch T e' = decode sch T e.
Proof. intros T e e' Hcl Hn. unfold decode. apply noise_unmarshal; assumption. Qed.

(* ---------- the streaming scanner ---------- *)
Definition kinds_known : Prop := forall nm, unknown nm = true -> assoc_str scan_kinds (lower_ascii nm) = None.

Lemma scan_unknown : kinds_known -> forall x, all_unknown x = true -> scan_el sch x = ([], None).
Proof.
  intros Hk x. induction x as [nm at_ kids t IH] using xml_ind2. intros Hx. cbn [all_unknown] in Hx.
  apply andb_true_iff in Hx. destruct Hx as [Hn Hks]. cbn [scan_el]. rewrite (Hk nm Hn).
  induction kids as [|k r IHr]; [reflexivity|]. apply andb_true_iff in Hks. destruct Hks as [H1 H2].
  inversion IH as [|? ? IH1 IH2]; subst. rewrite (IH1 H1). rewrite (IHr IH2 H2). reflexivity.
Qed.

Definition scan_go (l : list xml) : list obj * option err :=
  (fix go (l : list xml) : list obj * option err :=
     match l with
     | [] => ([], None)
     | k :: r =>
         let '(a, er) := scan_el sch k in
         match er with
         | Some _ => (a, er)
         | None => let '(b, er') := go r in (a ++ b, er')
         end
     end) l.

Theorem noise_scan : closed = true -> kinds_known ->
  (forall e e', noise e e' -> scan_el sch e' = scan_el sch e)
  /\ (forall l l', kids_noise l l' -> scan_go l' = scan_go l).
Proof.
  intros Hcl Hk. apply noise_mutind.
  - intros nm at_ at' ks ks' t Ha Hks IH.
    pose proof (N_el nm at_ at' ks ks' t Ha Hks) as Hn. cbn [scan_el].
    destruct (assoc_str scan_kinds (lower_ascii nm)) as [T|].
    + rewrite (noise_decode T _ _ Hcl Hn). reflexivity.
    + exact IH.
  - reflexivity.
  - intros c c' l l' Hc IHc Hl IHl. unfold scan_go in *. rewrite IHc. destruct (scan_el sch c) as [a [er|]]; [reflexivity|].
    rewrite IHl. reflexivity.
  - intros x l l' Hx Hl IHl. unfold scan_go in *. rewrite (scan_unknown Hk x Hx). rewrite IHl.
    destruct ((fix go (l0 : list xml) : list obj * option err :=
                 match l0 with
                 | [] => ([], None)
                 | k :: r => let '(a, er) := scan_el sch k in
                             match er with Some _ => (a, er) | None => let '(b, er') := go r in (a ++ b, er') end
                 end) l) as [b er']. reflexivity.
Qed.

End Noise.
