(* C09/ProofsTrees.v — "a new scanner yields the same elements": the resume theorems of
   C09/Proofs.v composed with layer L1 (theories/Pbf, the model of the block decoder).

   In C09/Proofs.v a frame carries ONE object list, so the second scanner trivially sees the
   objects the first one saw.  Here that is not assumed.  The same bytes are described twice:
   [fs1] is the file as the workers of the FIRST scan decode it (the data payload of every block is
   what a worker in some decoder state st1 makes of the block's message tree m: the state left
   behind by whatever blocks that worker decoded before), [fs2] is the file as the decoders of the
   RESUMED scanner decode it (same tree m, some other state st2, e.g. the fresh one).  Framing
   fields, encodings and header payloads are those of the bytes and agree.  By L1's state
   independence the two descriptions are equal, so everything proved about one list of frames
   speaks about the two scans. *)
From Coq Require Import ZArith List Bool Arith Lia.
From Verif Require Import Framing.Model Framing.Valid C06.Spec C06.Proofs C06.Bridge C09.Spec C09.Proofs.
Import ListNotations.
Open Scope Z_scope.

Definition same_payload (c : L1.cfg) (p1 p2 : payload L1.obj) : Prop :=
  match p1, p2 with
  | PHeader h1, PHeader h2 => h1 = h2
  | PData d1, PData d2 => exists m st1 st2, d1 = decode_tree c st1 m /\ d2 = decode_tree c st2 m
  | _, _ => False
  end.

Definition same_block (c : L1.cfg) (f1 f2 : frame L1.obj) : Prop :=
  f_pfx f1 = f_pfx f2 /\ f_hlen f1 = f_hlen f2 /\ f_hdr f1 = f_hdr f2 /\ f_blen f1 = f_blen f2 /\
  match f_blob f1, f_blob f2 with
  | BlobBad, BlobBad => True
  | BlobOk b1, BlobOk b2 => b_enc b1 = b_enc b2 /\ same_payload c (b_pay b1) (b_pay b2)
  | _, _ => False
  end.

Lemma same_block_eq : forall c f1 f2, same_block c f1 f2 -> f1 = f2.
Proof.
  intros c [p1 l1 h1 n1 b1] [p2 l2 h2 n2 b2] (E1 & E2 & E3 & E4 & B). cbn in *. subst.
  destruct b1 as [|[e1 y1]], b2 as [|[e2 y2]]; try contradiction; [reflexivity|].
  cbn in B. destruct B as [-> P]. destruct y1 as [g1|d1], y2 as [g2|d2]; cbn in P; try contradiction.
  - subst. reflexivity.
  - destruct P as (m & st1 & st2 & -> & ->).
    rewrite (decode_tree_state_independent c st1 st2 m). reflexivity.
Qed.

Lemma same_blocks_eq : forall c fs1 fs2, Forall2 (same_block c) fs1 fs2 -> fs1 = fs2.
Proof.
  intros c fs1 fs2 H. induction H as [|f1 f2 r1 r2 Hf _ IH]; [reflexivity|].
  rewrite (same_block_eq c f1 f2 Hf), IH. reflexivity.
Qed.

(* stop the first scan after ANY k objects; the second scanner, started at the reported offset on
   the same bytes with its own decoders, ends without error, and k' <= k objects of the first scan
   followed by what the SECOND scanner returns are all objects the first scan would have returned *)
Theorem stop_and_resume_on_trees : forall c (fs1 fs2 : list (frame L1.obj)) (k : nat),
  Forall2 (same_block c) fs1 fs2 ->
  valid_file fs1 = true -> (k <= length (objs_of fs1))%nat ->
  let all := objs_of fs1 in
  let off := fsb_after (scan current fs1 (total_size fs1)) k in
  exists rest k',
    seek off fs2 = Some rest /\ (k' <= k)%nat /\
    out (scan current rest (total_size fs2 - off)) = Done /\
    firstn k' all ++ objects (scan current rest (total_size fs2 - off)) = all.
Proof.
  intros c fs1 fs2 k H Hv Hk. rewrite <- (same_blocks_eq c fs1 fs2 H).
  exact (stop_and_resume_loses_nothing fs1 k Hv Hk).
Qed.

(* resuming at the start of data block j: the second scanner returns the objects the first scan's
   workers produced for blocks j, j+1, ... *)
Theorem resume_on_trees : forall c (fs1 fs2 : list (frame L1.obj)) (j : nat),
  Forall2 (same_block c) fs1 fs2 -> valid_file fs1 = true ->
  let off := start_of fs1 j in
  exists rest,
    seek off fs2 = Some rest /\
    objects (scan current rest (total_size fs2 - off)) =
      (if off =? 0 then objs_of fs1 else objs_of (skipn j (data_frames fs1))) /\
    out (scan current rest (total_size fs2 - off)) = Done.
Proof.
  intros c fs1 fs2 j H Hv. rewrite <- (same_blocks_eq c fs1 fs2 H).
  exact (resume fs1 j Hv).
Qed.
