(* C09/AfterError.v — the two offsets after a scan of a TRUNCATED valid file has failed.

   Outside the property (C09 speaks of stop positions after returned objects of valid files);
   modelled (Framing/Model.v [loop_err_off], [scan_err_off], [end_offsets]) and observed on every
   cut and every damage class by the C06 harness.  A block cut short is a reader-side error: its
   pair carries Offset 0 and Next shifts before it looks at the error, so afterwards
   FullyScannedBytes = 0 and PreviousFullyScannedBytes = the offset of the last block taken.
   Resuming from either value re-delivers objects and never skips one: both are block starts (or
   0) not after the block of the last returned object. *)
From Coq Require Import ZArith List Bool Lia.
From Verif Require Import Framing.Model Framing.Valid Framing.Proofs C06.Spec C06.Proofs C09.Spec C09.Proofs.
Import ListNotations.
Open Scope Z_scope.

Section AfterError.
Context {T : Type}.

Definition err_off_of (o : outcome) : option Z := match o with Done => None | _ => Some 0 end.

Lemma loop_err_off_cut : forall (fs : list (frame T)) avail off,
  forallb good_data_frame fs = true -> 0 <= avail <= total_size fs ->
  loop_err_off current fs avail off = err_off_of (cut_outcome fs avail).
Proof.
  induction fs as [|f r IH]; intros avail off Hg Ha.
  - cbn in Ha. assert (avail = 0) by lia. subst avail. reflexivity.
  - cbn [forallb] in Hg. apply andb_prop in Hg as [Hf Hr].
    destruct (good_data_frame_inv f Hf) as (b & objs & Hgf & He & Hp & Ho).
    pose proof (frame_size_pos f (good_data_framed f Hf)) as Hpos.
    pose proof (total_size_nonneg r Hr) as Hnn.
    rewrite total_size_cons in Ha.
    destruct (Z_le_gt_dec (frame_size f) avail) as [Hc|Hc].
    + cbn [loop_err_off]. rewrite (rfb_complete current TyData b f avail Hgf Hc).
      rewrite (decode_data_good b objs He Hp).
      rewrite (IH (avail - frame_size f) (off + frame_size f) Hr) by lia.
      unfold cut_outcome. cbn [is_boundary].
      assert (E1 : (frame_size f <=? avail) = true) by (apply Z.leb_le; lia).
      assert (E2 : (avail =? 0) = false) by (apply Z.eqb_neq; lia).
      rewrite E1, E2. reflexivity.
    + assert (E1 : (frame_size f <=? avail) = false) by (apply Z.leb_gt; lia).
      unfold cut_outcome. cbn [loop_err_off is_boundary]. rewrite E1.
      cbn [andb]. rewrite orb_false_r.
      destruct (Z.eq_dec avail 0) as [H0|H0].
      * subst avail. rewrite (rfb_nothing current f 0) by lia. reflexivity.
      * rewrite (rfb_cut_inside TyData b f avail Hgf) by lia.
        assert (E2 : (avail =? 0) = false) by (apply Z.eqb_neq; lia). rewrite E2. reflexivity.
Qed.

(* the whole scan: a cut inside the FIRST block is an error of Start (no pair, nothing shifts); any
   later cut off a block boundary is a reader-side error pair with Offset 0 *)
Theorem scan_err_off_cut : forall (f : frame T) r k,
  valid_file (f :: r) = true -> frame_size f <= k <= total_size (f :: r) ->
  scan_err_off current (f :: r) k = err_off_of (cut_outcome (f :: r) k).
Proof.
  intros f r k Hv Hk. cbn [valid_file] in Hv. apply andb_prop in Hv as [Hf Hr].
  rewrite total_size_cons in Hk.
  assert (E1 : (frame_size f <=? k) = true) by (apply Z.leb_le; lia).
  apply orb_prop in Hf as [Hh|Hd].
  - destruct (good_header_frame_inv f Hh) as (b & Hgf & He & Hp & Ho & Hih).
    pose proof (frame_size_pos f (proj1 Hgf)) as Hpos.
    assert (E2 : (k =? 0) = false) by (apply Z.eqb_neq; lia).
    cbn [scan_err_off]. rewrite (rfb_complete current TyHeader b f k Hgf (proj1 Hk)).
    rewrite (decode_header_good b He Hp).
    rewrite (loop_err_off_cut r (k - frame_size f) (frame_size f) Hr) by lia.
    unfold cut_outcome. cbn [is_boundary]. rewrite E1, E2. reflexivity.
  - destruct (good_data_frame_inv f Hd) as (b & objs & Hgf & He & Hp & Ho).
    pose proof (frame_size_pos f (proj1 Hgf)) as Hpos.
    assert (E2 : (k =? 0) = false) by (apply Z.eqb_neq; lia).
    cbn [scan_err_off]. rewrite (rfb_complete current TyData b f k Hgf (proj1 Hk)).
    rewrite (decode_data_good b objs He Hp).
    rewrite (loop_err_off_cut r (k - frame_size f) (frame_size f) Hr) by lia.
    unfold cut_outcome. cbn [is_boundary]. rewrite E1, E2. reflexivity.
Qed.

(* hence: after the failed scan of a valid file cut at k (past the first block, off a boundary)
   FullyScannedBytes is 0 and PreviousFullyScannedBytes is what FullyScannedBytes was after the
   last block taken, i.e. the offset of the last complete data block before the cut *)
Theorem end_offsets_after_truncation : forall (f : frame T) r k,
  valid_file (f :: r) = true -> frame_size f <= k <= total_size (f :: r) ->
  is_boundary (f :: r) k = false ->
  end_offsets (scan current (f :: r) k) (scan_err_off current (f :: r) k)
  = (snd (spec_final (frames_before (f :: r) k)), 0).
Proof.
  intros f r k Hv Hk Hb.
  rewrite (scan_err_off_cut f r k Hv Hk). unfold cut_outcome. rewrite Hb. cbn [err_off_of].
  assert (Hk' : 0 <= k <= total_size (f :: r)).
  { split; [|lia]. pose proof (valid_first_pos f r Hv). lia. }
  rewrite (scan_cut (f :: r) k Hv Hk'). unfold end_offsets. cbn [deliveries].
  pose proof (frames_before_valid (f :: r) k Hv) as Hfv.
  pose proof (final_offsets_exact _ Hfv) as F. rewrite (scan_valid _ Hfv) in F. cbn [deliveries] in F.
  rewrite F. destruct (spec_final (frames_before (f :: r) k)) as [p c]. reflexivity.
Qed.

End AfterError.
