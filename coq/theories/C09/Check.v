(* C09/Check.v — correspondence + property oracle for one harness case (executable only).

   Case layouts (first token = tag, zigzag):
   1 TRACE : procs frames fsb0 pfsb0 (obj fsb pfsb)* err fsbN pfsbN
             one complete scan; the two offsets read before the first Scan, after every Scan, and
             once more after Scan has returned false
   2 STOPS : procs frames runs    run = k_lo k_hi fsb pfsb fsb2 pfsb2 resumed rerr prev_resumed perr short
             (fsb2 pfsb2: the two offsets read again after the scan was stopped: Close / cancel)
             for EVERY stop position k (0..all objects): scan k objects, read the offsets, Close,
             open a second scanner on data[fsb:] (and one on data[pfsb:]); equal observations of
             consecutive k are merged into runs
   The frames carry the objects each block yields under the case's skip flags.
   codes: 1 = model <> implementation, 2 = property oracle fails, 3 = runs do not partition
          0..#objects, 0 = parse failure. *)
From Coq Require Import ZArith List Bool Arith.
From Verif Require Import Base.Wire Framing.Model Framing.Valid Framing.WireFrames C06.Spec C09.Spec.
Import ListNotations.
Open Scope Z_scope.
Open Scope wire_scope.

Definition triple_eqb (a b : obj * Z * Z) : bool :=
  let '(o, c, p) := a in let '(o', c', p') := b in (o =? o') && (c =? c') && (p =? p').

Definition ptriple : P (obj * Z * Z) := o <- ptok ;; c <- pint ;; p <- pint ;; ret (o, c, p).

Definition check_trace : P (list Z) :=
  procs <- pint ;; fs <- pframes ;; fsb0 <- pint ;; pfsb0 <- pint ;;
  tr <- plist ptriple ;; err <- pint ;; fsbN <- pint ;; pfsbN <- pint ;;
  let r := scan current fs (total_size fs) in
  let pair_is (x : Z * Z) := (fst x =? pfsbN) && (snd x =? fsbN) in
  let j1 := list_eqb triple_eqb (trace r) tr && (err =? outcome_code (out r))
            && (fsb0 =? 0) && (pfsb0 =? 0) && pair_is (final_offsets 0 0 (deliveries r)) in
  let j2 := list_eqb triple_eqb (spec_trace fs) tr && (err =? 0) && (fsb0 =? 0) && (pfsb0 =? 0)
            && pair_is (spec_final fs) in
  ret (code_if j1 1 ++ code_if j2 2)%list.

(* the model of "open a second scanner on data[off:]" *)
Definition resume_at (fs : list (frame obj)) (off : Z) : option (list obj * Z) :=
  match seek off fs with
  | Some rest => let r := scan current rest (total_size fs - off) in
                 Some (objects r, outcome_code (out r))
  | None => None
  end.

(* the offsets a scanner started on data[off:] (by slicing or by Seek: the same thing for the
   decoder, which only counts what it reads) reports after each of its objects: relative to off *)
Definition resume_offsets (fs : list (frame obj)) (off : Z) : option (list Z * list Z) :=
  match seek off fs with
  | Some rest => let t := trace (scan current rest (total_size fs - off)) in
                 Some (map (fun x => snd (fst x)) t, map (fun x => snd x) t)
  | None => None
  end.
Definition spec_resume_offsets (fs : list (frame obj)) (off : Z) : option (list Z * list Z) :=
  match seek off fs with
  | Some rest => let t := spec_trace rest in
                 Some (map (fun x => snd (fst x)) t, map (fun x => snd x) t)
  | None => None
  end.
Definition offs_is (m : option (list Z * list Z)) (a b : list Z) : bool :=
  match m with
  | Some (x, y) => list_eqb Z.eqb x a && list_eqb Z.eqb y b
  | None => false
  end.

Definition res_eqb (m : option (list obj * Z)) (objs : list obj) (e : Z) : bool :=
  match m with
  | Some (l, c) => objs_eqb l objs && ((c =? 0) && (e =? 0) || (c =? 1) && negb (e =? 0))
  | None => false
  end.

Definition oZ_is (m : option Z) (v : Z) : bool := match m with Some x => x =? v | None => false end.
Definition oL_is (m : option (list obj)) (l : list obj) : bool :=
  match m with Some x => objs_eqb x l | None => false end.

Record stoprun := StopRun { s_lo : Z; s_hi : Z; s_fsb : Z; s_pfsb : Z; s_fsb2 : Z; s_pfsb2 : Z;
                            s_res : list obj; s_rfsb : list Z; s_rpfsb : list Z; s_rerr : Z;
                            s_pres : list obj; s_perr : Z; s_short : bool }.

Definition pstoprun : P stoprun :=
  lo <- pint ;; hi <- pint ;; fsb <- pint ;; pfsb <- pint ;; fsb2 <- pint ;; pfsb2 <- pint ;;
  res <- pobjs ;; rfsb <- plist pint ;; rpfsb <- plist pint ;; rerr <- pint ;;
  pres <- pobjs ;; perr <- pint ;; sh <- pbool ;;
  ret (StopRun lo hi fsb pfsb fsb2 pfsb2 res rfsb rpfsb rerr pres perr sh).

Fixpoint stops_partition (next total : Z) (runs : list stoprun) : bool :=
  match runs with
  | [] => next =? total + 1
  | s :: r => (s_lo s =? next) && (s_lo s <=? s_hi s) && stops_partition (s_hi s + 1) total r
  end.

(* judgements for stop positions k, k+1, ... (n of them) of one run *)
Fixpoint stop_sweep (fs : list (frame obj)) (r : result obj) (all : list obj) (s : stoprun)
         (k : nat) (n : nat) (j1 j2 : bool) : bool * bool :=
  match n with
  | O => (j1, j2)
  | S n' =>
      (* Close and cancellation do not move the offsets (decoder.Close, Scan after cancel: no
         block is taken): what is read after the stop is what was read before it *)
      let m := (fsb_after r k =? s_fsb s) && (pfsb_after r k =? s_pfsb s)
               && (fsb_after r k =? s_fsb2 s) && (pfsb_after r k =? s_pfsb2 s)
               && res_eqb (resume_at fs (s_fsb s)) (s_res s) (s_rerr s)
               && offs_is (resume_offsets fs (s_fsb s)) (s_rfsb s) (s_rpfsb s)
               && res_eqb (resume_at fs (s_pfsb s)) (s_pres s) (s_perr s)
               && negb (s_short s) in
      let p := oZ_is (spec_fsb fs k) (s_fsb s) && oZ_is (spec_pfsb fs k) (s_pfsb s)
               && oZ_is (spec_fsb fs k) (s_fsb2 s) && oZ_is (spec_pfsb fs k) (s_pfsb2 s)
               && oL_is (spec_resumed fs k) (s_res s) && (s_rerr s =? 0)
               && offs_is (spec_resume_offsets fs (s_fsb s)) (s_rfsb s) (s_rpfsb s)
               && oL_is (spec_prev_resumed fs k) (s_pres s) && (s_perr s =? 0)
               && negb (s_short s)
               (* "never skips an element": what was returned before the stop and is not
                  returned again, followed by the resumed objects, is the whole file *)
               && (let dup := (length (s_res s) + k - length all)%nat in
                   objs_eqb (firstn (k - dup) all ++ s_res s) all && (dup <=? k)%nat) in
      stop_sweep fs r all s (S k) n' (j1 && m) (j2 && p)
  end.

Fixpoint stop_runs (fs : list (frame obj)) (r : result obj) (all : list obj)
         (runs : list stoprun) (j1 j2 : bool) : bool * bool :=
  match runs with
  | [] => (j1, j2)
  | s :: rest =>
      let '(a, b) := stop_sweep fs r all s (Z.to_nat (s_lo s)) (Z.to_nat (s_hi s - s_lo s + 1)) j1 j2 in
      stop_runs fs r all rest a b
  end.

Definition check_stops : P (list Z) :=
  procs <- pint ;; fs <- pframes ;; runs <- plist pstoprun ;;
  let r := scan current fs (total_size fs) in
  let all := objs_of fs in
  let '(j1, j2) := stop_runs fs r all runs true true in
  ret (code_if (j1 && objs_eqb (objects r) all) 1 ++ code_if j2 2
       ++ code_if (stops_partition 0 (Z.of_nat (length all)) runs) 3)%list.

(* 3 SHARED: procs frames runs   run = k_lo k_hi fsb resumed rerr in_flight short
   the same ReadSeeker serves the first scanner and, after Close and Seek(fsb), the restarted one:
   no Read of the closed scanner may be in progress when Close returns, and the restart yields the
   objects from the current block on *)
Record shrun := ShRun { h_lo : Z; h_hi : Z; h_fsb : Z; h_res : list obj; h_rerr : Z; h_fl : bool; h_short : bool }.
Definition pshrun : P shrun :=
  lo <- pint ;; hi <- pint ;; fsb <- pint ;; res <- pobjs ;; rerr <- pint ;; fl <- pbool ;; sh <- pbool ;;
  ret (ShRun lo hi fsb res rerr fl sh).

Fixpoint sh_partition (next total : Z) (runs : list shrun) : bool :=
  match runs with
  | [] => next =? total + 1
  | s :: r => (h_lo s =? next) && (h_lo s <=? h_hi s) && sh_partition (h_hi s + 1) total r
  end.

Fixpoint sh_sweep (fs : list (frame obj)) (r : result obj) (s : shrun) (k n : nat) (j1 j2 : bool) : bool * bool :=
  match n with
  | O => (j1, j2)
  | S n' =>
      let ok := negb (h_fl s) && negb (h_short s) in
      let m := (fsb_after r k =? h_fsb s) && res_eqb (resume_at fs (h_fsb s)) (h_res s) (h_rerr s) && ok in
      let p := oZ_is (spec_fsb fs k) (h_fsb s) && oL_is (spec_resumed fs k) (h_res s) && (h_rerr s =? 0) && ok in
      sh_sweep fs r s (S k) n' (j1 && m) (j2 && p)
  end.

Fixpoint sh_runs (fs : list (frame obj)) (r : result obj) (runs : list shrun) (j1 j2 : bool) : bool * bool :=
  match runs with
  | [] => (j1, j2)
  | s :: rest =>
      let '(a, b) := sh_sweep fs r s (Z.to_nat (h_lo s)) (Z.to_nat (h_hi s - h_lo s + 1)) j1 j2 in
      sh_runs fs r rest a b
  end.

Definition check_shared : P (list Z) :=
  procs <- pint ;; fs <- pframes ;; runs <- plist pshrun ;;
  let r := scan current fs (total_size fs) in
  let '(j1, j2) := sh_runs fs r runs true true in
  ret (code_if j1 1 ++ code_if j2 2
       ++ code_if (sh_partition 0 (Z.of_nat (length (objs_of fs))) runs) 3)%list.

Definition check_case (t : toks) : list Z :=
  match t with
  | tag :: rest =>
      let p := if tag =? 2 then check_trace
               else if tag =? 4 then check_stops
               else if tag =? 6 then check_shared
               else pfail in
      match parse_all p rest with Some codes => codes | None => [0] end
  | [] => [0]
  end.
