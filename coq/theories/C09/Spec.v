(* C09/Spec.v — ground truth of property C09, written from the property text:
   where each data block starts, which block holds the k-th returned object, what a scanner
   started at a block start must return.  Independent of the reader model.  Executable. *)
From Coq Require Import ZArith List Bool Arith.
From Verif Require Import Framing.Model Framing.Valid C06.Spec.
Import ListNotations.
Open Scope Z_scope.

Section Spec.
Context {T : Type}.

(* the file's header frame takes [hdr_len] bytes (0 when the stream starts with data) *)
Definition hdr_len (fs : list (frame T)) : Z :=
  match fs with f :: _ => if is_header_frame f then frame_size f else 0 | [] => 0 end.
Definition data_frames (fs : list (frame T)) : list (frame T) :=
  match fs with f :: r => if is_header_frame f then r else fs | [] => [] end.

(* byte offset at which data block j starts, relative to where the reader started *)
Definition start_of (fs : list (frame T)) (j : nat) : Z :=
  hdr_len fs + total_size (firstn j (data_frames fs)).

(* index of the data block that contains the k-th returned object (k >= 1);
   blocks without objects (empty, or emptied by skip flags) contain none *)
Fixpoint block_of (ds : list (frame T)) (k : nat) : option nat :=
  match ds with
  | [] => None
  | f :: r =>
      let n := length (frame_objs f) in
      if (k <=? n)%nat then Some O else option_map S (block_of r (k - n))
  end.

(* FullyScannedBytes after k objects were returned *)
Definition spec_fsb (fs : list (frame T)) (k : nat) : option Z :=
  match k with
  | O => Some 0
  | _ => option_map (start_of fs) (block_of (data_frames fs) k)
  end.

(* PreviousFullyScannedBytes: the value that was current during the preceding block *)
Definition spec_pfsb (fs : list (frame T)) (k : nat) : option Z :=
  match k with
  | O => Some 0
  | _ => match block_of (data_frames fs) k with
         | Some O => Some 0
         | Some (S j) => Some (start_of fs j)
         | None => None
         end
  end.

(* what a second scanner opened at the reported offset must yield: everything from the first
   object of that block on (the whole file when nothing was returned yet) *)
Definition spec_resumed (fs : list (frame T)) (k : nat) : option (list T) :=
  match k with
  | O => Some (objs_of fs)
  | _ => option_map (fun j => objs_of (skipn j (data_frames fs))) (block_of (data_frames fs) k)
  end.

Definition spec_prev_resumed (fs : list (frame T)) (k : nat) : option (list T) :=
  match k with
  | O => Some (objs_of fs)
  | _ => match block_of (data_frames fs) k with
         | Some O => Some (objs_of fs)
         | Some (S j) => Some (objs_of (skipn j (data_frames fs)))
         | None => None
         end
  end.

(* expected (object, FullyScannedBytes, PreviousFullyScannedBytes) after every Scan *)
Fixpoint spec_trace_from (prev off : Z) (ds : list (frame T)) : list (T * Z * Z) :=
  match ds with
  | [] => []
  | f :: r => map (fun o => (o, off, prev)) (frame_objs f)
              ++ spec_trace_from off (off + frame_size f) r
  end.
Definition spec_trace (fs : list (frame T)) : list (T * Z * Z) :=
  spec_trace_from 0 (hdr_len fs) (data_frames fs).

(* the two offsets after the scan has ended: (start of the block before the last data block,
   start of the last data block), empty blocks included; (0, 0) without data blocks *)
Fixpoint spec_final_from (p c off : Z) (ds : list (frame T)) : Z * Z :=
  match ds with
  | [] => (p, c)
  | f :: r => spec_final_from c off (off + frame_size f) r
  end.
Definition spec_final (fs : list (frame T)) : Z * Z :=
  spec_final_from 0 0 (hdr_len fs) (data_frames fs).

End Spec.
