(* C09/Proofs.v — the offsets a scan reports are the block starts; a scanner started at a reported
   offset returns everything from that block on; stopping anywhere and resuming loses nothing. *)
From Coq Require Import ZArith List Bool Arith Lia.
From Verif Require Import Framing.Model Framing.Valid Framing.Proofs C06.Spec C06.Proofs C09.Spec.
Import ListNotations.
Open Scope Z_scope.

Section Proofs.
Context {T : Type}.
Implicit Types (f : frame T) (fs ds : list (frame T)).

(* ---- the complete scan of a valid stream ---- *)
Lemma frames_before_all : forall ds, forallb good_data_frame ds = true ->
  frames_before ds (total_size ds) = ds /\ is_boundary ds (total_size ds) = true.
Proof.
  induction ds as [|f r IH]; intros H; [split; reflexivity|].
  cbn [forallb] in H. apply andb_prop in H as [Hf Hr].
  destruct (IH Hr) as [I1 I2]. pose proof (total_size_nonneg r Hr) as Hnn.
  rewrite total_size_cons. cbn [frames_before is_boundary].
  assert (E : (frame_size f <=? frame_size f + total_size r) = true) by (apply Z.leb_le; lia).
  rewrite E. replace (frame_size f + total_size r - frame_size f) with (total_size r) by lia.
  rewrite I1, I2. split; [reflexivity|apply orb_true_r].
Qed.

Theorem scan_valid : forall fs, valid_file fs = true ->
  scan current fs (total_size fs) = Result (spec_deliveries fs) Done.
Proof.
  intros fs Hv.
  assert (H : frames_before fs (total_size fs) = fs /\ is_boundary fs (total_size fs) = true).
  { destruct fs as [|f r]; [split; reflexivity|].
    pose proof (valid_first_pos f r Hv) as Hpos.
    cbn [valid_file] in Hv. apply andb_prop in Hv as [_ Hr].
    destruct (frames_before_all r Hr) as [I1 I2]. pose proof (total_size_nonneg r Hr) as Hnn.
    rewrite total_size_cons. cbn [frames_before is_boundary].
    assert (E : (frame_size f <=? frame_size f + total_size r) = true) by (apply Z.leb_le; lia).
    rewrite E. replace (frame_size f + total_size r - frame_size f) with (total_size r) by lia.
    rewrite I1, I2. split; [reflexivity|apply orb_true_r]. }
  destruct H as [H1 H2].
  assert (Hk : 0 <= total_size fs <= total_size fs).
  { split; [|lia]. destruct fs as [|f r]; [cbn; lia|].
    pose proof (valid_first_pos f r Hv). cbn [valid_file] in Hv. apply andb_prop in Hv as [_ Hr].
    pose proof (total_size_nonneg r Hr). rewrite total_size_cons. lia. }
  rewrite (scan_cut fs (total_size fs) Hv Hk). unfold cut_outcome. rewrite H1, H2. reflexivity.
Qed.

(* ---- offsets ---- *)
Lemma spec_deliveries_split : forall fs, valid_file fs = true ->
  spec_deliveries fs = deliveries_from (hdr_len fs) (data_frames fs)
  /\ forallb good_data_frame (data_frames fs) = true
  /\ total_size fs = hdr_len fs + total_size (data_frames fs)
  /\ 0 <= hdr_len fs
  /\ objs_of fs = objs_of (data_frames fs).
Proof.
  intros [|f r] Hv; [repeat split; cbn; lia|].
  pose proof (valid_first_pos f r Hv) as Hpos.
  cbn [valid_file] in Hv. apply andb_prop in Hv as [Hf Hr].
  unfold spec_deliveries, hdr_len, data_frames.
  apply orb_prop in Hf as [Hh|Hd].
  - destruct (good_header_frame_inv f Hh) as (b & _ & _ & _ & Ho & Hih). rewrite Hih.
    repeat split; try assumption; try lia.
    unfold objs_of. cbn [map concat]. rewrite Ho. reflexivity.
  - rewrite (good_data_not_header f Hd).
    repeat split; try lia. cbn [forallb]. rewrite Hd, Hr. reflexivity.
Qed.

Lemma consume_deliveries : forall ds c off,
  consume c (deliveries_from off ds) = spec_trace_from c off ds.
Proof.
  induction ds as [|f r IH]; intros c off; [reflexivity|].
  cbn [deliveries_from consume spec_trace_from]. rewrite IH. reflexivity.
Qed.

(* C09, first sentence, for every returned object at once *)
Theorem offsets_exact : forall fs, valid_file fs = true ->
  trace (scan current fs (total_size fs)) = spec_trace fs.
Proof.
  intros fs Hv. rewrite (scan_valid fs Hv). unfold trace, spec_trace. cbn [deliveries].
  destruct (spec_deliveries_split fs Hv) as (H1 & _). rewrite H1. apply consume_deliveries.
Qed.

Lemma final_deliveries : forall ds p c off,
  final_offsets p c (deliveries_from off ds) = spec_final_from p c off ds.
Proof.
  induction ds as [|f r IH]; intros p c off; [reflexivity|].
  cbn [deliveries_from final_offsets spec_final_from]. apply IH.
Qed.

(* the offsets that remain reported after the scan has ended *)
Theorem final_offsets_exact : forall fs, valid_file fs = true ->
  final_offsets 0 0 (deliveries (scan current fs (total_size fs))) = spec_final fs.
Proof.
  intros fs Hv. rewrite (scan_valid fs Hv). cbn [deliveries]. unfold spec_final.
  destruct (spec_deliveries_split fs Hv) as (H1 & _). rewrite H1. apply final_deliveries.
Qed.

Lemma objs_of_cons : forall f ds, objs_of (f :: ds) = frame_objs f ++ objs_of ds.
Proof. reflexivity. Qed.

Lemma objs_of_app : forall a b : list (frame T), objs_of (a ++ b) = objs_of a ++ objs_of b.
Proof.
  induction a as [|f a IH]; intros b; [reflexivity|].
  cbn [app]. rewrite !objs_of_cons, IH, app_assoc. reflexivity.
Qed.

(* the k-th returned object (k >= 1): its block j, and the offsets reported with it *)
Lemma kth_object : forall ds prev off k,
  (1 <= k <= length (objs_of ds))%nat ->
  exists j o,
    block_of ds k = Some j /\ (j < length ds)%nat /\
    nth_error (spec_trace_from prev off ds) (k - 1) =
      Some (o, off + total_size (firstn j ds),
            match j with O => prev | S j' => off + total_size (firstn j' ds) end) /\
    (length (objs_of (firstn j ds)) < k)%nat.
Proof.
  induction ds as [|f r IH]; intros prev off k Hk.
  - cbn in Hk. lia.
  - rewrite objs_of_cons, app_length in Hk.
    cbn [block_of spec_trace_from].
    destruct (k <=? length (frame_objs f))%nat eqn:E.
    + apply Nat.leb_le in E.
      destruct (nth_error (frame_objs f) (k - 1)) as [o|] eqn:En.
      2:{ apply nth_error_None in En. lia. }
      exists O, o. repeat split; [cbn; lia| |cbn; lia].
      rewrite nth_error_app1 by (rewrite map_length; lia).
      rewrite nth_error_map, En. cbn. f_equal. f_equal. f_equal. lia.
    + apply Nat.leb_gt in E.
      destruct (IH off (off + frame_size f) (k - length (frame_objs f))%nat) as (j & o & Hb & Hj & Hn & Hl);
        [lia|].
      exists (S j), o. rewrite Hb. repeat split; [cbn; lia| |].
      * rewrite nth_error_app2 by (rewrite map_length; lia). rewrite map_length.
        replace (k - 1 - length (frame_objs f))%nat with (k - length (frame_objs f) - 1)%nat by lia.
        rewrite Hn. cbn [firstn]. rewrite total_size_cons. f_equal. f_equal; [f_equal; lia|].
        destruct j as [|j']; [cbn; lia|]. cbn [firstn]. rewrite total_size_cons. lia.
      * cbn [firstn]. rewrite objs_of_cons, app_length. lia.
Qed.

(* FullyScannedBytes / PreviousFullyScannedBytes after k objects are the spec's block starts *)
Theorem reported_offsets : forall fs k, valid_file fs = true ->
  (k <= length (objs_of fs))%nat ->
  let r := scan current fs (total_size fs) in
  spec_fsb fs k = Some (fsb_after r k) /\ spec_pfsb fs k = Some (pfsb_after r k).
Proof.
  intros fs k Hv Hk r. subst r. unfold fsb_after, pfsb_after, spec_fsb, spec_pfsb.
  destruct k as [|k']; [split; reflexivity|].
  rewrite (offsets_exact fs Hv). unfold spec_trace.
  destruct (spec_deliveries_split fs Hv) as (_ & _ & _ & Hh & Ho). rewrite Ho in Hk.
  destruct (kth_object (data_frames fs) 0 (hdr_len fs) (S k')) as (j & o & Hb & Hj & Hn & Hl); [lia|].
  replace (S k' - 1)%nat with k' in Hn by lia. rewrite Hn, Hb. unfold start_of. cbn [option_map].
  split; [reflexivity|]. destruct j; reflexivity.
Qed.

(* ---- data[off:] ---- *)
Lemma total_size_split : forall j ds,
  total_size ds = total_size (firstn j ds) + total_size (skipn j ds).
Proof.
  induction j as [|j IH]; intros ds.
  - cbn [firstn skipn]. change (total_size (@nil (frame T))) with 0. lia.
  - destruct ds as [|f r]; [reflexivity|]. cbn [firstn skipn]. rewrite !total_size_cons, (IH r). lia.
Qed.

Lemma seek_data : forall j ds, forallb good_data_frame ds = true ->
  seek (total_size (firstn j ds)) ds = Some (skipn j ds).
Proof.
  induction j as [|j IH]; intros ds Hd.
  - destruct ds; reflexivity.
  - destruct ds as [|f r]; [reflexivity|].
    cbn [forallb] in Hd. apply andb_prop in Hd as [Hf Hr].
    pose proof (frame_size_pos f (good_data_framed f Hf)) as Hpos.
    assert (Hnn : 0 <= total_size (firstn j r)).
    { apply total_size_nonneg. clear - Hr. revert j. induction r as [|g r IHr]; intros [|j]; try reflexivity.
      cbn [forallb] in Hr. apply andb_prop in Hr as [Hg Hr']. cbn [firstn forallb]. rewrite Hg. cbn. auto. }
    cbn [firstn skipn]. rewrite total_size_cons. cbn [seek].
    assert (E1 : (frame_size f + total_size (firstn j r) =? 0) = false) by (apply Z.eqb_neq; lia).
    assert (E2 : (frame_size f + total_size (firstn j r) <? frame_size f) = false) by (apply Z.ltb_ge; lia).
    rewrite E1, E2.
    replace (frame_size f + total_size (firstn j r) - frame_size f) with (total_size (firstn j r)) by lia.
    apply IH. exact Hr.
Qed.

Lemma seek_start : forall fs j, valid_file fs = true ->
  seek (start_of fs j) fs = Some (if (start_of fs j =? 0) then fs else skipn j (data_frames fs)).
Proof.
  intros fs j Hv. destruct (start_of fs j =? 0) eqn:E0.
  - apply Z.eqb_eq in E0. rewrite E0. destruct fs; reflexivity.
  - destruct (spec_deliveries_split fs Hv) as (_ & Hd & _ & Hh & _).
    unfold start_of in *. destruct fs as [|f r]; [cbn in E0; destruct j; discriminate|].
    unfold hdr_len, data_frames in *. destruct (is_header_frame f) eqn:Eh.
    + pose proof (valid_first_pos f r Hv) as Hpos.
      assert (Hnn : 0 <= total_size (firstn j r)).
      { apply total_size_nonneg. clear - Hd. revert j. induction r as [|g r IHr]; intros [|j]; try reflexivity.
        cbn [forallb] in Hd. apply andb_prop in Hd as [Hg Hr']. cbn [firstn forallb]. rewrite Hg. cbn. auto. }
      cbn [seek]. rewrite E0.
      assert (E2 : (frame_size f + total_size (firstn j r) <? frame_size f) = false) by (apply Z.ltb_ge; lia).
      rewrite E2.
      replace (frame_size f + total_size (firstn j r) - frame_size f) with (total_size (firstn j r)) by lia.
      apply seek_data. exact Hd.
    + rewrite Z.add_0_l in *. apply seek_data. exact Hd.
Qed.

Lemma skipn_good : forall j ds, forallb good_data_frame ds = true ->
  forallb good_data_frame (skipn j ds) = true.
Proof.
  induction j as [|j IH]; intros ds H; [exact H|].
  destruct ds as [|f r]; [reflexivity|]. cbn [forallb] in H. apply andb_prop in H as [_ Hr].
  cbn [skipn]. apply IH. exact Hr.
Qed.

Lemma data_valid : forall ds, forallb good_data_frame ds = true -> valid_file ds = true.
Proof.
  intros [|f r] H; [reflexivity|]. cbn [forallb] in H. apply andb_prop in H as [Hf Hr].
  cbn [valid_file]. rewrite Hf, Hr, orb_true_r. reflexivity.
Qed.

Lemma data_spec_deliveries : forall ds, forallb good_data_frame ds = true ->
  spec_deliveries ds = deliveries_from 0 ds.
Proof.
  intros [|f r] H; [reflexivity|]. cbn [forallb] in H. apply andb_prop in H as [Hf _].
  apply spec_deliveries_data. apply good_data_not_header. exact Hf.
Qed.

(* C09, second sentence: a new scanner on data[offset:] where offset is the start of data block j
   (its first block is then data, taken at offset 0) yields exactly the blocks j, j+1, ... *)
Theorem resume : forall fs j, valid_file fs = true ->
  let ds := data_frames fs in
  let off := start_of fs j in
  exists rest,
    seek off fs = Some rest /\
    objects (scan current rest (total_size fs - off)) =
      (if off =? 0 then objs_of fs else objs_of (skipn j ds)) /\
    out (scan current rest (total_size fs - off)) = Done.
Proof.
  intros fs j Hv ds off. subst ds off.
  rewrite (seek_start fs j Hv).
  destruct (start_of fs j =? 0) eqn:E0.
  - apply Z.eqb_eq in E0. rewrite E0, Z.sub_0_r. exists fs. split; [reflexivity|].
    rewrite (scan_valid fs Hv). unfold objects. cbn [deliveries out].
    split; [apply objs_spec_deliveries; exact Hv|reflexivity].
  - exists (skipn j (data_frames fs)). split; [reflexivity|].
    destruct (spec_deliveries_split fs Hv) as (_ & Hd & Ht & _ & _).
    pose proof (skipn_good j _ Hd) as Hs.
    assert (Hsz : total_size fs - start_of fs j = total_size (skipn j (data_frames fs))).
    { unfold start_of. rewrite Ht, (total_size_split j (data_frames fs)). lia. }
    rewrite Hsz, (scan_valid _ (data_valid _ Hs)). unfold objects. cbn [deliveries out].
    split; [|reflexivity]. rewrite (data_spec_deliveries _ Hs). apply objs_deliveries_from.
Qed.

Lemma firstn_skipn_objs : forall j ds, objs_of ds = objs_of (firstn j ds) ++ objs_of (skipn j ds).
Proof. intros j ds. rewrite <- objs_of_app, firstn_skipn. reflexivity. Qed.

(* C09, corollary: stop after ANY number k of returned objects, open a second scanner at the
   reported FullyScannedBytes: some k' <= k objects were returned before the current block, and
   those followed by everything the second scanner returns are exactly all objects of the file. *)
Theorem stop_and_resume_loses_nothing : forall fs k, valid_file fs = true ->
  (k <= length (objs_of fs))%nat ->
  let all := objs_of fs in
  let off := fsb_after (scan current fs (total_size fs)) k in
  exists rest k',
    seek off fs = Some rest /\ (k' <= k)%nat /\
    out (scan current rest (total_size fs - off)) = Done /\
    firstn k' all ++ objects (scan current rest (total_size fs - off)) = all.
Proof.
  intros fs k Hv Hk all off. subst all off.
  destruct k as [|k'].
  - cbn [fsb_after]. exists fs, O. rewrite Z.sub_0_r, (scan_valid fs Hv).
    unfold objects. cbn [deliveries out firstn app].
    repeat split; [destruct fs; reflexivity|lia|apply objs_spec_deliveries; exact Hv].
  - destruct (spec_deliveries_split fs Hv) as (_ & Hd & Ht & Hh & Ho).
    pose proof Hk as Hk2. rewrite Ho in Hk2.
    destruct (kth_object (data_frames fs) 0 (hdr_len fs) (S k')) as (j & o & Hb & Hj & _ & Hl); [lia|].
    assert (Hoff : fsb_after (scan current fs (total_size fs)) (S k') = start_of fs j).
    { destruct (reported_offsets fs (S k') Hv Hk) as [Hf _]. cbn zeta in Hf.
      unfold spec_fsb in Hf. rewrite Hb in Hf. cbn [option_map] in Hf.
      unfold fsb_after in *. congruence. }
    rewrite Hoff.
    destruct (resume fs j Hv) as (rest & Hs & Hobj & Hout). cbn zeta in *.
    destruct (start_of fs j =? 0) eqn:E0.
    + exists rest, O. rewrite Hobj. repeat split; [exact Hs|lia|exact Hout].
    + exists rest, (length (objs_of (firstn j (data_frames fs)))).
      rewrite Hobj, Ho. repeat split; [exact Hs|lia|exact Hout|].
      rewrite (firstn_skipn_objs j (data_frames fs)) at 1.
      rewrite firstn_app, firstn_all, Nat.sub_diag. cbn [firstn]. rewrite app_nil_r.
      symmetry. apply firstn_skipn_objs.
Qed.

End Proofs.
