(* C10/Proofs.v — lemmas about the generated id constructors/decoders and the text model. *)
From Coq Require Import ZArith List String Ascii Bool Lia ZifyBool Sorted Permutation.
From Coq Require Import DecimalString Decimal.
From Coq Require DecimalN DecimalFacts.
From Verif Require Import Base.Int64 C10.Model C10.GenSem.
From VerifGen Require Import GenIds.
Import ListNotations.
Open Scope Z_scope.

Ltac Zify.zify_post_hook ::= Z.div_mod_to_equations.

(* ---------- bit lemmas ---------- *)

Lemma lor_add a b : Z.land a b = 0 -> Z.lor a b = a + b.
Proof.
  intros H. rewrite <- Z.lxor_lor by exact H. symmetry. apply Z.add_nocarry_lxor. exact H.
Qed.

Lemma land_shl_small a b n : 0 <= n -> 0 <= b < 2 ^ n -> Z.land (a * 2 ^ n) b = 0.
Proof.
  intros Hn Hb. apply Z.bits_inj'. intros i Hi. rewrite Z.land_spec, Z.bits_0.
  destruct (Z.lt_ge_cases i n) as [Hlt|Hge].
  - rewrite Z.mul_pow2_bits_low by lia. reflexivity.
  - replace b with (b mod 2 ^ n) by (apply Z.mod_small; lia).
    rewrite Z.mod_pow2_bits_high by lia. apply andb_false_r.
Qed.

Lemma land_ones_shl x n m :
  0 <= n -> 0 <= m -> Z.land x (Z.ones n * 2 ^ m) = ((x / 2 ^ m) mod 2 ^ n) * 2 ^ m.
Proof.
  intros Hn Hm. apply Z.bits_inj'. intros i Hi. rewrite Z.land_spec.
  destruct (Z.lt_ge_cases i m) as [Hlt|Hge].
  - rewrite !Z.mul_pow2_bits_low by lia. apply andb_false_r.
  - rewrite !Z.mul_pow2_bits by lia.
    destruct (Z.lt_ge_cases (i - m) n) as [Hl|Hg].
    + rewrite Z.ones_spec_low by lia. rewrite Z.mod_pow2_bits_low by lia.
      rewrite Z.div_pow2_bits by lia. rewrite andb_true_r. f_equal. lia.
    + rewrite Z.ones_spec_high by lia. rewrite Z.mod_pow2_bits_high by lia.
      apply andb_false_r.
Qed.

Lemma land_low x n : 0 <= n -> Z.land (Z.ones n) x = x mod 2 ^ n.
Proof. intros Hn. rewrite Z.land_comm. apply Z.land_ones. exact Hn. Qed.

(* ---------- layout: constructors in arithmetic normal form ---------- *)

Lemma pack_lor K r v :
  0 <= K < 128 -> 0 <= r < two40 -> 0 <= v < two16 ->
  Z.lor (Z.lor (K * two56) (wrap64 (Z.shiftl r 16))) (Z.land 65535 v)
  = K * two56 + r * two16 + v.
Proof.
  unfold two40, two16, two56. intros HK Hr Hv.
  rewrite Z.shiftl_mul_pow2 by lia. change (2 ^ 16) with 65536.
  rewrite wrap64_id by (unfold in_int64, Int64.two63; lia).
  change 65535 with (Z.ones 16). rewrite land_low by lia.
  change (2 ^ 16) with 65536. rewrite Z.mod_small by lia.
  rewrite (lor_add (K * _) (r * _)).
  - rewrite lor_add; [reflexivity|].
    replace (K * 72057594037927936 + r * 65536)
      with ((K * 1099511627776 + r) * 2 ^ 16) by (change (2 ^ 16) with 65536; lia).
    apply land_shl_small; [lia|change (2 ^ 16) with 65536; lia].
  - change 72057594037927936 with (2 ^ 56). apply land_shl_small; [lia|].
    change (2 ^ 56) with 72057594037927936. lia.
Qed.

Lemma pack_lor0 K r :
  0 <= K < 128 -> 0 <= r < two40 ->
  Z.lor (K * two56) (wrap64 (Z.shiftl r 16)) = K * two56 + r * two16 + 0.
Proof.
  intros HK Hr. pose proof (pack_lor K r 0 HK Hr ltac:(unfold two16; lia)) as H.
  rewrite Z.land_0_r, Z.lor_0_r in H. exact H.
Qed.

Lemma kcode_range k : 0 <= kcode k < 128.
Proof. destruct k; cbn; lia. Qed.

Theorem object_id_pack k r v :
  in_range r v -> object_id k r v = pack k (norm_r k r) (norm_v k v).
Proof.
  intros [Hr Hv]. unfold pack.
  destruct k; cbn [object_id norm_r norm_v is_element kcode];
    rewrite ?NodeID_ObjectID_sem, ?WayID_ObjectID_sem, ?RelationID_ObjectID_sem,
      ?NodeID_ElementID_sem, ?WayID_ElementID_sem, ?RelationID_ElementID_sem,
      ?NodeID_FeatureID_sem, ?WayID_FeatureID_sem, ?RelationID_FeatureID_sem,
      ?ChangesetID_ObjectID_sem, ?NoteID_ObjectID_sem, ?UserID_ObjectID_sem, ?Bounds_ObjectID_sem,
      ?FeatureID_ElementID_sem;
    unfold ver_spec, ctor_spec.
  - reflexivity.
  - exact (pack_lor 16 r v ltac:(lia) Hr Hv).
  - exact (pack_lor 32 r v ltac:(lia) Hr Hv).
  - exact (pack_lor 48 r v ltac:(lia) Hr Hv).
  - exact (pack_lor0 64 r ltac:(lia) Hr).
  - exact (pack_lor0 80 r ltac:(lia) Hr).
  - exact (pack_lor0 96 r ltac:(lia) Hr).
Qed.

Theorem element_id_pack k r v :
  is_element k = true -> in_range r v -> element_id k r v = pack k r v.
Proof.
  intros Hk [Hr Hv]. unfold pack.
  destruct k; try discriminate Hk; cbn [element_id kcode];
    rewrite ?NodeID_ObjectID_sem, ?WayID_ObjectID_sem, ?RelationID_ObjectID_sem,
      ?NodeID_ElementID_sem, ?WayID_ElementID_sem, ?RelationID_ElementID_sem,
      ?NodeID_FeatureID_sem, ?WayID_FeatureID_sem, ?RelationID_FeatureID_sem,
      ?ChangesetID_ObjectID_sem, ?NoteID_ObjectID_sem, ?UserID_ObjectID_sem, ?Bounds_ObjectID_sem,
      ?FeatureID_ElementID_sem;
    unfold ver_spec, ctor_spec.
  - exact (pack_lor 16 r v ltac:(lia) Hr Hv).
  - exact (pack_lor 32 r v ltac:(lia) Hr Hv).
  - exact (pack_lor 48 r v ltac:(lia) Hr Hv).
Qed.

Theorem feature_id_pack k r :
  is_element k = true -> 0 <= r < two40 -> feature_id k r = pack k r 0.
Proof.
  intros Hk Hr. unfold pack.
  destruct k; try discriminate Hk; cbn [feature_id kcode];
    rewrite ?NodeID_ObjectID_sem, ?WayID_ObjectID_sem, ?RelationID_ObjectID_sem,
      ?NodeID_ElementID_sem, ?WayID_ElementID_sem, ?RelationID_ElementID_sem,
      ?NodeID_FeatureID_sem, ?WayID_FeatureID_sem, ?RelationID_FeatureID_sem,
      ?ChangesetID_ObjectID_sem, ?NoteID_ObjectID_sem, ?UserID_ObjectID_sem, ?Bounds_ObjectID_sem,
      ?FeatureID_ElementID_sem;
    unfold ver_spec, ctor_spec.
  - exact (pack_lor0 16 r ltac:(lia) Hr).
  - exact (pack_lor0 32 r ltac:(lia) Hr).
  - exact (pack_lor0 48 r ltac:(lia) Hr).
Qed.

(* the object id of an element is its element id; the element id extends the feature id *)
Theorem object_id_is_element_id k r v :
  is_element k = true -> object_id k r v = element_id k r v.
Proof.
  destruct k; intros H; try discriminate H; cbn [object_id element_id];
    rewrite ?NodeID_ObjectID_sem, ?WayID_ObjectID_sem, ?RelationID_ObjectID_sem,
      ?NodeID_ElementID_sem, ?WayID_ElementID_sem, ?RelationID_ElementID_sem,
      ?NodeID_FeatureID_sem, ?WayID_FeatureID_sem, ?RelationID_FeatureID_sem,
      ?ChangesetID_ObjectID_sem, ?NoteID_ObjectID_sem, ?UserID_ObjectID_sem, ?Bounds_ObjectID_sem,
      ?FeatureID_ElementID_sem; reflexivity.
Qed.

Theorem element_id_of_feature k r v :
  is_element k = true -> element_id k r v = FeatureID_ElementID (feature_id k r) v.
Proof.
  destruct k; intros H; try discriminate H; cbn [element_id feature_id];
    rewrite ?NodeID_ObjectID_sem, ?WayID_ObjectID_sem, ?RelationID_ObjectID_sem,
      ?NodeID_ElementID_sem, ?WayID_ElementID_sem, ?RelationID_ElementID_sem,
      ?NodeID_FeatureID_sem, ?WayID_FeatureID_sem, ?RelationID_FeatureID_sem,
      ?ChangesetID_ObjectID_sem, ?NoteID_ObjectID_sem, ?UserID_ObjectID_sem, ?Bounds_ObjectID_sem,
      ?FeatureID_ElementID_sem; reflexivity.
Qed.

(* the struct-level methods are the per-id constructors applied to the fields *)
Lemma struct_object_id_eq k r v : struct_object_id k r v = object_id k r v.
Proof.
  destruct k; cbn [struct_object_id object_id];
    rewrite ?Node_ObjectID_sem, ?Way_ObjectID_sem, ?Relation_ObjectID_sem,
      ?Changeset_ObjectID_sem, ?Note_ObjectID_sem, ?User_ObjectID_sem,
      ?NodeID_ObjectID_sem, ?WayID_ObjectID_sem, ?RelationID_ObjectID_sem,
      ?ChangesetID_ObjectID_sem, ?NoteID_ObjectID_sem, ?UserID_ObjectID_sem; reflexivity.
Qed.
Lemma struct_element_id_eq k r v : struct_element_id k r v = element_id k r v.
Proof.
  destruct k; cbn [struct_element_id element_id];
    rewrite ?Node_ElementID_sem, ?Way_ElementID_sem, ?Relation_ElementID_sem,
      ?NodeID_ElementID_sem, ?WayID_ElementID_sem, ?RelationID_ElementID_sem; reflexivity.
Qed.
Lemma struct_feature_id_eq k r : struct_feature_id k r = feature_id k r.
Proof.
  destruct k; cbn [struct_feature_id feature_id];
    rewrite ?Node_FeatureID_sem, ?Way_FeatureID_sem, ?Relation_FeatureID_sem,
      ?NodeID_FeatureID_sem, ?WayID_FeatureID_sem, ?RelationID_FeatureID_sem; reflexivity.
Qed.

(* ---------- decoders on arbitrary integers ---------- *)

Lemma ref_formula x : ObjectID_Ref x = (x / two16) mod two40.
Proof.
  rewrite ObjectID_Ref_sem. unfold ref_spec, c_refMask, c_versionBits, two16, two40.
  change 72057594037862400 with (Z.ones 40 * 2 ^ 16).
  rewrite land_ones_shl by lia. rewrite Z.shiftr_div_pow2 by lia.
  rewrite Z.div_mul by (change (2 ^ 16) with 65536; lia). reflexivity.
Qed.

Lemma element_ref_eq x : ElementID_Ref x = ObjectID_Ref x.
Proof. transitivity (ref_spec x); [apply ElementID_Ref_sem|symmetry; apply ObjectID_Ref_sem]. Qed.
Lemma feature_ref_eq x : FeatureID_Ref x = ObjectID_Ref x.
Proof. transitivity (ref_spec x); [apply FeatureID_Ref_sem|symmetry; apply ObjectID_Ref_sem]. Qed.
Lemma element_version_eq x : ElementID_Version x = ObjectID_Version x.
Proof. transitivity (version_spec x); [apply ElementID_Version_sem|symmetry; apply ObjectID_Version_sem]. Qed.

Lemma version_formula x : ObjectID_Version x = x mod two16.
Proof.
  rewrite ObjectID_Version_sem. unfold version_spec, c_versionMask, two16. change 65535 with (Z.ones 16).
  rewrite Z.land_ones by lia. reflexivity.
Qed.

Lemma type_bits_formula x : Z.land x c_typeMask = ((x / two56) mod 128) * two56.
Proof.
  unfold c_typeMask, two56. change 9151314442816847872 with (Z.ones 7 * 2 ^ 56).
  rewrite land_ones_shl by lia. reflexivity.
Qed.

Lemma feature_formula x : ElementID_FeatureID x = ((x / two16) mod (two63 / two16)) * two16.
Proof.
  rewrite ElementID_FeatureID_sem. unfold feature_spec, c_featureMask, two16, two63.
  change 9223372036854710272 with (Z.ones 47 * 2 ^ 16).
  rewrite land_ones_shl by lia. reflexivity.
Qed.

(* ---------- decode (pack ...) ---------- *)

Lemma pack_range k r v : in_range r v -> 0 <= pack k r v < two63.
Proof.
  unfold in_range, pack, two40, two16, two56, two63. intros [Hr Hv].
  pose proof (kcode_range k). destruct k; cbn [kcode] in *; lia.
Qed.

Lemma ref_pack k r v : in_range r v -> ObjectID_Ref (pack k r v) = r.
Proof.
  intros [Hr Hv]. rewrite ref_formula. unfold pack, two16, two40, two56 in *.
  destruct k; cbn [kcode]; lia.
Qed.

Lemma version_pack k r v : in_range r v -> ObjectID_Version (pack k r v) = v.
Proof.
  intros [Hr Hv]. rewrite version_formula. unfold pack, two16, two40, two56 in *.
  destruct k; cbn [kcode]; lia.
Qed.

Lemma type_bits_pack k r v : in_range r v -> Z.land (pack k r v) c_typeMask = kcode k * two56.
Proof.
  intros [Hr Hv]. rewrite type_bits_formula. f_equal.
  unfold pack, two16, two40, two56 in *. destruct k; cbn [kcode]; lia.
Qed.

Lemma object_type_pack k r v : in_range r v -> ObjectID_Type (pack k r v) = kind_name k.
Proof.
  intros H. rewrite ObjectID_Type_sem. unfold object_type_spec. rewrite (type_bits_pack k r v H).
  destruct k; reflexivity.
Qed.

Lemma element_type_pack k r v :
  is_element k = true -> in_range r v -> ElementID_Type (pack k r v) = kind_name k.
Proof.
  intros Hk H. rewrite ElementID_Type_sem. unfold element_type_spec. rewrite (type_bits_pack k r v H).
  destruct k; try discriminate Hk; reflexivity.
Qed.

Lemma feature_type_pack k r v :
  is_element k = true -> in_range r v -> FeatureID_Type (pack k r v) = kind_name k.
Proof.
  intros Hk H. rewrite FeatureID_Type_sem. unfold feature_type_spec. rewrite (type_bits_pack k r v H).
  destruct k; try discriminate Hk; reflexivity.
Qed.

Lemma feature_of_pack k r v : in_range r v -> ElementID_FeatureID (pack k r v) = pack k r 0.
Proof.
  intros [Hr Hv]. rewrite feature_formula. unfold pack, two16, two40, two56, two63 in *.
  change (9223372036854775808 / 65536) with 140737488355328.
  destruct k; cbn [kcode]; lia.
Qed.

Lemma kind_name_inj a b : kind_name a = kind_name b -> a = b.
Proof. destruct a, b; cbn; intros H; try reflexivity; discriminate H. Qed.

Lemma kind_of_name_name k : kind_of_name (kind_name k) = Some k.
Proof. destruct k; reflexivity. Qed.

(* ---------- injectivity and order ---------- *)

Definition lex_lt (a b : kind * Z * Z) : Prop :=
  let '(k, r, v) := a in let '(k', r', v') := b in
  rank k < rank k' \/ (rank k = rank k' /\ (r < r' \/ (r = r' /\ v < v'))).

Definition lex_le (a b : kind * Z * Z) : Prop := lex_lt a b \/ a = b.

Definition pack3 (a : kind * Z * Z) : Z := let '(k, r, v) := a in pack k r v.
Definition in_range3 (a : kind * Z * Z) : Prop := let '(_, r, v) := a in in_range r v.

Lemma rank_inj a b : rank a = rank b -> a = b.
Proof. destruct a, b; cbn; intros H; try reflexivity; lia. Qed.

Lemma pack_lt_iff a b : in_range3 a -> in_range3 b -> (pack3 a < pack3 b <-> lex_lt a b).
Proof.
  destruct a as [[k r] v], b as [[k' r'] v']. unfold in_range3, in_range, pack3, pack, lex_lt.
  unfold two16, two40, two56. intros [Hr Hv] [Hr' Hv'].
  destruct k, k'; cbn [kcode rank]; lia.
Qed.

Lemma pack_inj a b : in_range3 a -> in_range3 b -> pack3 a = pack3 b -> a = b.
Proof.
  destruct a as [[k r] v], b as [[k' r'] v']. unfold in_range3, in_range, pack3, pack.
  unfold two16, two40, two56. intros [Hr Hv] [Hr' Hv'] H.
  assert (rank k = rank k' /\ r = r' /\ v = v') as (Hk & -> & ->)
    by (destruct k, k'; cbn [kcode rank] in *; lia).
  apply rank_inj in Hk. subst. reflexivity.
Qed.

Lemma pack_le_iff a b : in_range3 a -> in_range3 b -> (pack3 a <= pack3 b <-> lex_le a b).
Proof.
  intros Ha Hb. unfold lex_le. rewrite <- (pack_lt_iff a b Ha Hb). split.
  - intros H. destruct (Z.eq_dec (pack3 a) (pack3 b)) as [E|N].
    + right. apply pack_inj; assumption.
    + left. lia.
  - intros [H| ->]; lia.
Qed.

(* the provided sorts compare the packed integers with <; any output of a correct sort is a
   permutation of the input that is sorted for <= on packed values.  Such a list is sorted by
   (kind, ref, version), and it is the only such permutation. *)
Lemma sorted_pack_lex l :
  Forall in_range3 l -> StronglySorted Z.le (map pack3 l) -> StronglySorted lex_le l.
Proof.
  induction l as [|a l IH]; intros Hr Hs; [constructor|].
  inversion Hr as [|? ? Ha Hl]; subst. cbn [map] in Hs.
  inversion Hs as [|? ? Hs' Hall]; subst. constructor; [apply IH; assumption|].
  rewrite Forall_forall in *. intros b Hb. apply pack_le_iff; auto.
  apply Hall. apply in_map. exact Hb.
Qed.

Lemma lex_sorted_pack l :
  Forall in_range3 l -> StronglySorted lex_le l -> StronglySorted Z.le (map pack3 l).
Proof.
  induction l as [|a l IH]; intros Hr Hs; cbn [map]; [constructor|].
  inversion Hr as [|? ? Ha Hl]; subst. inversion Hs as [|? ? Hs' Hall]; subst.
  constructor; [apply IH; assumption|].
  rewrite Forall_forall in *. intros y Hy. apply in_map_iff in Hy as (b & <- & Hb).
  apply pack_le_iff; auto.
Qed.

Lemma sorted_perm_unique (l1 l2 : list Z) :
  Permutation l1 l2 -> StronglySorted Z.le l1 -> StronglySorted Z.le l2 -> l1 = l2.
Proof.
  revert l2. induction l1 as [|a l1 IH]; intros l2 Hp H1 H2.
  - apply Permutation_nil in Hp. subst. reflexivity.
  - destruct l2 as [|b l2]; [apply Permutation_sym, Permutation_nil in Hp; discriminate|].
    inversion H1 as [|? ? H1' A1]; subst. inversion H2 as [|? ? H2' A2]; subst.
    rewrite Forall_forall in A1, A2.
    assert (a = b) as ->.
    { assert (In a (b :: l2)) as Ia by (eapply Permutation_in; [exact Hp|left; reflexivity]).
      assert (In b (a :: l1)) as Ib
        by (eapply Permutation_in; [apply Permutation_sym; exact Hp|left; reflexivity]).
      destruct Ia as [->|Ia]; [reflexivity|]. destruct Ib as [->|Ib]; [reflexivity|].
      specialize (A1 _ Ib). specialize (A2 _ Ia). lia. }
    f_equal. apply IH; auto. eapply Permutation_cons_inv; exact Hp.
Qed.

(* ---------- text ---------- *)

Fixpoint nochar (c : ascii) (s : string) : bool :=
  match s with
  | EmptyString => true
  | String a r => negb (Ascii.eqb a c) && nochar c r
  end.

Lemma split_on_nochar c s : nochar c s = true -> split_on c s = [s].
Proof.
  induction s as [|a r IH]; cbn; intros H; [reflexivity|].
  apply andb_true_iff in H as [Ha Hr]. apply negb_true_iff in Ha. rewrite Ha, (IH Hr). reflexivity.
Qed.

Lemma split_on_app c s t :
  nochar c s = true -> split_on c (s ++ String c t) = s :: split_on c t.
Proof.
  induction s as [|a r IH]; cbn; intros H.
  - rewrite Ascii.eqb_refl. reflexivity.
  - apply andb_true_iff in H as [Ha Hr]. apply negb_true_iff in Ha. rewrite Ha, (IH Hr). reflexivity.
Qed.

Lemma nochar_app c s t : nochar c (s ++ t) = nochar c s && nochar c t.
Proof. induction s as [|a r IH]; cbn; [reflexivity|]. rewrite IH, andb_assoc. reflexivity. Qed.

Lemma all_digits_nochar c s : is_digit c = false -> all_digits s = true -> nochar c s = true.
Proof.
  intros Hc. induction s as [|a r IH]; cbn; intros H; [reflexivity|].
  apply andb_true_iff in H as [Ha Hr]. rewrite (IH Hr), andb_true_r.
  apply negb_true_iff. destruct (Ascii.eqb_spec a c) as [->|]; [congruence|reflexivity].
Qed.

Lemma all_digits_uint d : all_digits (NilEmpty.string_of_uint d) = true.
Proof. induction d; cbn; auto. Qed.

Lemma to_uint_nonnil n : N.to_uint n <> Nil.
Proof.
  intros H. pose proof (DecimalN.Unsigned.of_to n) as E. rewrite H in E. cbn in E. subst n.
  discriminate H.
Qed.

Lemma string_of_uint_nonempty d : d <> Nil -> NilEmpty.string_of_uint d <> EmptyString.
Proof. destruct d; cbn; intros H; try discriminate; contradiction. Qed.

Lemma dec_nonneg z : 0 <= z -> dec_of_Z z = NilEmpty.string_of_uint (N.to_uint (Z.to_N z)).
Proof. intros H. unfold dec_of_Z. destruct (Z.ltb_spec z 0); [lia|reflexivity]. Qed.

Lemma parse_digits s :
  all_digits s = true -> s <> EmptyString ->
  parse_int64 s =
    match NilEmpty.uint_of_string s with
    | Some d => let n := Z.of_N (N.of_uint d) in
                if (- two63 <=? n) && (n <? two63) then Some n else None
    | None => None
    end.
Proof.
  intros Hd Hne. unfold parse_int64. destruct s as [|a r]; [contradiction|].
  cbn [all_digits] in Hd. apply andb_true_iff in Hd as [Ha Hr].
  assert (a <> "-"%char /\ a <> "+"%char) as [N1 N2]
    by (split; intros ->; discriminate Ha).
  assert ((let '(neg, body) :=
            match String a r with
            | String "-" r0 => (true, r0) | String "+" r0 => (false, r0) | _ => (false, String a r)
            end in (neg, body)) = (false, String a r)) as E.
  { destruct a as [[] [] [] [] [] [] [] []]; try reflexivity; exfalso; auto. }
  destruct a as [[] [] [] [] [] [] [] []]; try (exfalso; auto; fail);
    cbn [all_digits]; rewrite ?Ha, ?Hr; cbn [andb]; reflexivity.
Qed.

Lemma parse_dec z : 0 <= z < two63 -> parse_int64 (dec_of_Z z) = Some z.
Proof.
  intros Hz. rewrite dec_nonneg by lia.
  rewrite parse_digits; [|apply all_digits_uint|apply string_of_uint_nonempty, to_uint_nonnil].
  rewrite NilEmpty.usu. rewrite DecimalN.Unsigned.of_to. rewrite Z2N.id by lia.
  cbv zeta. unfold two63 in *.
  rewrite (proj2 (Z.leb_le _ _)) by lia. rewrite (proj2 (Z.ltb_lt _ _)) by lia. reflexivity.
Qed.

Lemma nochar_dec c z : is_digit c = false -> 0 <= z -> nochar c (dec_of_Z z) = true.
Proof.
  intros Hc Hz. rewrite dec_nonneg by lia. apply all_digits_nochar; [exact Hc|apply all_digits_uint].
Qed.

Lemma kind_name_nochar k c : is_digit c = false -> c = slash \/ c = colon -> nochar c (kind_name k) = true.
Proof. intros _ [->| ->]; destruct k; reflexivity. Qed.

Lemma dec_not_dash z : 0 <= z -> String.eqb (dec_of_Z z) "-" = false.
Proof.
  intros Hz. rewrite dec_nonneg by lia.
  pose proof (all_digits_uint (N.to_uint (Z.to_N z))) as H.
  destruct (NilEmpty.string_of_uint (N.to_uint (Z.to_N z))) as [|a r]; [reflexivity|].
  cbn in H. apply andb_true_iff in H as [Ha _].
  apply String.eqb_neq. intros E. injection E as -> _. discriminate Ha.
Qed.

Lemma parse_ref_version_ok r v :
  0 <= r < two63 -> 0 <= v < two63 ->
  parse_ref_version (dec_of_Z r ++ String colon (if v =? 0 then "-" else dec_of_Z v)) = Some (r, v).
Proof.
  intros Hr Hv. unfold parse_ref_version.
  rewrite split_on_app by (apply nochar_dec; [reflexivity|lia]).
  destruct (Z.eqb_spec v 0) as [->|Hne].
  - cbn [split_on Ascii.eqb]. change (split_on colon "-") with ["-"%string].
    rewrite parse_dec by lia. reflexivity.
  - rewrite split_on_nochar by (apply nochar_dec; [reflexivity|lia]).
    rewrite parse_dec by lia. rewrite dec_not_dash by lia. rewrite parse_dec by lia. reflexivity.
Qed.

Lemma split_id_string name r v :
  nochar slash name = true -> 0 <= r -> 0 <= v ->
  split_on slash (id_string name r v)
  = [name; (dec_of_Z r ++ String colon (if (v =? 0)%Z then "-" else dec_of_Z v))%string].
Proof.
  intros Hn Hr Hv. unfold id_string.
  change (String slash (dec_of_Z r) ++ ?t)%string with (String slash (dec_of_Z r ++ t)).
  rewrite split_on_app by exact Hn.
  rewrite split_on_nochar; [reflexivity|].
  rewrite nochar_app. rewrite nochar_dec by (auto; reflexivity). cbn [nochar andb].
  change (Ascii.eqb colon slash) with false. cbn [negb andb].
  destruct (v =? 0); [reflexivity|]. apply nochar_dec; [reflexivity|lia].
Qed.

Lemma type_objectID_name k r v : Type_objectID (kind_name k) r v = Some (object_id k r v).
Proof. destruct k; reflexivity. Qed.

Lemma type_featureID_name k r :
  is_element k = true -> Type_FeatureID (kind_name k) r = Some (feature_id k r).
Proof. destruct k; intros H; try discriminate H; reflexivity. Qed.

Lemma norm_in_range k r v : in_range r v -> in_range (norm_r k r) (norm_v k v).
Proof.
  unfold in_range, norm_r, norm_v, two40, two16. intros [Hr Hv].
  destruct k; cbn [is_element]; lia.
Qed.

Lemma norm_idem_obj k r v :
  object_id k (norm_r k r) (norm_v k v) = object_id k r v.
Proof. destruct k; reflexivity. Qed.

Theorem parse_object_string k r v :
  in_range r v ->
  parse_object_id (object_id_string (object_id k r v)) = Some (object_id k r v).
Proof.
  intros H. pose proof (norm_in_range k r v H) as Hn.
  rewrite (object_id_pack k r v H). unfold object_id_string.
  rewrite (object_type_pack _ _ _ Hn), (ref_pack _ _ _ Hn), (version_pack _ _ _ Hn).
  destruct Hn as [Hr Hv]. unfold two40, two16 in *.
  unfold parse_object_id. rewrite split_id_string by (try lia; apply kind_name_nochar; auto).
  rewrite parse_ref_version_ok by (unfold two63; lia).
  rewrite type_objectID_name, norm_idem_obj, (object_id_pack k r v H). reflexivity.
Qed.

Theorem parse_element_string k r v :
  is_element k = true -> in_range r v ->
  parse_element_id (element_id_string (element_id k r v)) = Some (element_id k r v).
Proof.
  intros Hk H. rewrite (element_id_pack k r v Hk H). unfold element_id_string.
  rewrite element_ref_eq, element_version_eq.
  rewrite (element_type_pack _ _ _ Hk H), (ref_pack _ _ _ H), (version_pack _ _ _ H).
  destruct H as [Hr Hv]. unfold two40, two16 in *.
  unfold parse_element_id. rewrite split_id_string by (try lia; apply kind_name_nochar; auto).
  rewrite parse_ref_version_ok by (unfold two63; lia).
  rewrite (type_featureID_name k r Hk).
  rewrite <- (element_id_of_feature k r v Hk).
  rewrite element_id_pack; [reflexivity|exact Hk|split; unfold two40, two16; lia].
Qed.

Theorem parse_feature_string k r :
  is_element k = true -> 0 <= r < two40 ->
  parse_feature_id (feature_id_string (feature_id k r)) = Some (feature_id k r).
Proof.
  intros Hk Hr. assert (in_range r 0) as H by (split; [exact Hr|unfold two16; lia]).
  rewrite (feature_id_pack k r Hk Hr). unfold feature_id_string.
  rewrite feature_ref_eq.
  rewrite (feature_type_pack _ _ _ Hk H), (ref_pack _ _ _ H).
  assert ((match kind_name k with "" => "unknown" | t => t end)%string = kind_name k) as ->
    by (destruct k; reflexivity).
  unfold parse_feature_id. unfold two40 in *.
  rewrite split_on_app by (apply kind_name_nochar; auto).
  rewrite split_on_nochar by (apply nochar_dec; [reflexivity|lia]).
  rewrite parse_dec by (unfold two63; lia).
  rewrite (type_featureID_name k r Hk).
  rewrite feature_id_pack; [reflexivity|exact Hk|unfold two40; lia].
Qed.

(* ---------- rejection: accepted text has the kind/ref[:version] shape ---------- *)

Definition has_shape (elements_only : bool) (with_version : bool) (s : string) : Prop :=
  exists t rest k,
    split_on slash s = [t; rest] /\ kind_of_name t = Some k /\
    (elements_only = true -> is_element k = true) /\
    if with_version then
      exists parts, split_on colon rest = parts /\ (List.length parts <= 2)%nat /\
        exists a, hd_error parts = Some a /\ parse_int64 a <> None /\
        forall b, nth_error parts 1 = Some b -> b = "-"%string \/ parse_int64 b <> None
    else parse_int64 rest <> None.

Lemma type_objectID_known t r v id : Type_objectID t r v = Some id -> exists k, kind_of_name t = Some k.
Proof.
  unfold Type_objectID. cbv zeta.
  repeat match goal with
  | |- context [String.eqb t ?c] => destruct (String.eqb_spec t c) as [->|]; [eexists; reflexivity|]
  end. discriminate.
Qed.

Lemma type_featureID_known t r id :
  Type_FeatureID t r = Some id -> exists k, kind_of_name t = Some k /\ is_element k = true.
Proof.
  unfold Type_FeatureID. cbv zeta.
  repeat match goal with
  | |- context [String.eqb t ?c] =>
      destruct (String.eqb_spec t c) as [->|]; [eexists; split; reflexivity|]
  end. discriminate.
Qed.

Lemma parse_ref_version_shape rest r v :
  parse_ref_version rest = Some (r, v) ->
  exists parts, split_on colon rest = parts /\ (List.length parts <= 2)%nat /\
    exists a, hd_error parts = Some a /\ parse_int64 a <> None /\
    forall b, nth_error parts 1 = Some b -> b = "-"%string \/ parse_int64 b <> None.
Proof.
  unfold parse_ref_version. intros H. eexists; split; [reflexivity|].
  destruct (split_on colon rest) as [|a [|b [|c l]]]; try discriminate H.
  - split; [cbn; lia|]. exists a. split; [reflexivity|]. split.
    + destruct (parse_int64 a); [discriminate|discriminate H].
    + intros b Hb. discriminate Hb.
  - split; [cbn; lia|]. exists a. split; [reflexivity|]. split.
    + destruct (parse_int64 a); [discriminate|discriminate H].
    + intros b' Hb. cbn in Hb. injection Hb as <-.
      destruct (parse_int64 a); [|discriminate H].
      destruct (String.eqb_spec b "-") as [->|]; [left; reflexivity|].
      right. destruct (parse_int64 b); [discriminate|discriminate H].
Qed.

Theorem parse_object_id_shape s id : parse_object_id s = Some id -> has_shape false true s.
Proof.
  unfold parse_object_id, has_shape. intros H.
  destruct (split_on slash s) as [|t [|rest [|x l]]]; try discriminate H.
  destruct (parse_ref_version rest) as [[r v]|] eqn:E; [|discriminate H].
  destruct (type_objectID_known _ _ _ _ H) as [k Hk].
  exists t, rest, k. split; [reflexivity|]. split; [exact Hk|]. split; [discriminate|].
  eapply parse_ref_version_shape; exact E.
Qed.

Theorem parse_element_id_shape s id : parse_element_id s = Some id -> has_shape true true s.
Proof.
  unfold parse_element_id, has_shape. intros H.
  destruct (split_on slash s) as [|t [|rest [|x l]]]; try discriminate H.
  destruct (parse_ref_version rest) as [[r v]|] eqn:E; [|discriminate H].
  destruct (Type_FeatureID t r) as [f|] eqn:F; [|discriminate H].
  destruct (type_featureID_known _ _ _ F) as [k [Hk He]].
  exists t, rest, k. split; [reflexivity|]. split; [exact Hk|]. split; [intros _; exact He|].
  eapply parse_ref_version_shape; exact E.
Qed.

Theorem parse_feature_id_shape s id : parse_feature_id s = Some id -> has_shape true false s.
Proof.
  unfold parse_feature_id, has_shape. intros H.
  destruct (split_on slash s) as [|t [|rest [|x l]]]; try discriminate H.
  destruct (parse_int64 rest) as [r|] eqn:E; [|discriminate H].
  destruct (type_featureID_known _ _ _ H) as [k [Hk He]].
  exists t, rest, k. split; [reflexivity|]. split; [exact Hk|]. split; [intros _; exact He|].
  rewrite E. discriminate.
Qed.
