(* C10/GenSem.v — SEMANTIC lemmas about the generated id functions (VerifGen.GenIds).

   Every other proof file of C10 talks about the generated constructors, decoders and
   conversions only through the equations proved here:  forall x, Gen.f x = spec x,  where the
   specs below are fixed canonical forms over the generated CONSTANTS (masks, bit counts, type
   names).  The equations are established by one normalising tactic ([gen_sem]) that does not
   depend on how the Go function happens to be written:
     - it unfolds all generated functions (helpers of the Go package are inlined by the
       translator, so no unknown name remains) and reduces the lets;
     - integer results: equality of the two bit-vector expressions up to associativity,
       commutativity and idempotence of | and & (bit extensionality + btauto over the atoms);
     - type switches / if-chains / delegation to another Type(): case analysis on every integer
       test  _ =? _  that occurs, each leaf decided by computation;
     - masks nested through FeatureID() (x & featureMask & typeMask) are normalised first.
   A rewrite of a Go body that keeps its meaning (operands swapped, helper extracted, switch
   turned into ifs, Type() reused, early return, renamed locals) leaves these lemmas provable by
   the same script; a change of meaning makes the lemma of that function fail, which the check
   reports as the broken obligation, next to the concrete failing input from the harness. *)
From Coq Require Import ZArith List String Bool Lia Btauto.
From Verif Require Import Base.Int64.
From VerifGen Require Import GenIds.
Import ListNotations.
Open Scope Z_scope.

(* ---------- canonical forms ---------- *)

Definition ctor_spec (mask r : Z) : Z := Z.lor mask (wrap64 (Z.shiftl r c_versionBits)).
Definition ver_spec (f v : Z) : Z := Z.lor f (Z.land c_versionMask v).
Definition ref_spec (x : Z) : Z := Z.shiftr (Z.land x c_refMask) c_versionBits.
Definition version_spec (x : Z) : Z := Z.land x c_versionMask.
Definition feature_spec (x : Z) : Z := Z.land x c_featureMask.

Definition feature_type_spec (x : Z) : string :=
  let tb := Z.land x c_typeMask in
  if tb =? c_nodeMask then c_TypeNode
  else if tb =? c_wayMask then c_TypeWay
  else if tb =? c_relationMask then c_TypeRelation
  else ""%string.

Definition element_type_spec (x : Z) : string :=
  let tb := Z.land x c_typeMask in
  if tb =? c_nodeMask then c_TypeNode
  else if tb =? c_wayMask then c_TypeWay
  else if tb =? c_relationMask then c_TypeRelation
  else "!panic"%string.

Definition object_type_spec (x : Z) : string :=
  let tb := Z.land x c_typeMask in
  if tb =? c_nodeMask then c_TypeNode
  else if tb =? c_wayMask then c_TypeWay
  else if tb =? c_relationMask then c_TypeRelation
  else if tb =? c_changesetMask then c_TypeChangeset
  else if tb =? c_noteMask then c_TypeNote
  else if tb =? c_userMask then c_TypeUser
  else if tb =? c_boundsMask then c_TypeBounds
  else "!panic"%string.

Definition conv_spec (mask x : Z) : option Z :=
  if Z.land x c_typeMask =? mask then Some (ref_spec x) else None.

(* ---------- the normalising tactic ---------- *)

Ltac gen_unfold :=
  cbv beta zeta delta
    [NodeID_FeatureID NodeID_ElementID NodeID_ObjectID
     WayID_FeatureID WayID_ElementID WayID_ObjectID
     RelationID_FeatureID RelationID_ElementID RelationID_ObjectID
     ChangesetID_ObjectID NoteID_ObjectID UserID_ObjectID Bounds_ObjectID
     FeatureID_Type FeatureID_Ref FeatureID_ObjectID FeatureID_ElementID
     ElementID_Type ElementID_Ref ElementID_Version ElementID_ObjectID ElementID_FeatureID
     ObjectID_Type ObjectID_Ref ObjectID_Version
     FeatureID_NodeID FeatureID_WayID FeatureID_RelationID
     Node_ObjectID Node_FeatureID Node_ElementID Way_ObjectID Way_FeatureID Way_ElementID
     Relation_ObjectID Relation_FeatureID Relation_ElementID
     Changeset_ObjectID Note_ObjectID User_ObjectID
     ElementID_NodeID ElementID_WayID ElementID_RelationID
     ctor_spec ver_spec ref_spec version_spec feature_spec
     feature_type_spec element_type_spec object_type_spec conv_spec].

(* x & featureMask & typeMask = x & typeMask, and the like *)
Lemma land_feature_type x : Z.land (Z.land x c_featureMask) c_typeMask = Z.land x c_typeMask.
Proof. rewrite <- Z.land_assoc. reflexivity. Qed.
Lemma land_feature_ref x : Z.land (Z.land x c_featureMask) c_refMask = Z.land x c_refMask.
Proof. rewrite <- Z.land_assoc. reflexivity. Qed.

(* the type field as a number: x & typeMask = m * 2^56 with m = (x / 2^56) mod 128 in [0, 128).
   A Type() function is a function of m only, so however it decodes the kind (switch on the
   masks, table lookup on the shifted code, ...) its equation with the spec is a FINITE check
   over the 128 values of m. *)
Definition typebits (x : Z) : Z := (x / 2 ^ 56) mod 128.

Lemma typebits_range x : 0 <= typebits x < 128.
Proof. unfold typebits. apply Z.mod_pos_bound. reflexivity. Qed.

Lemma land_typeMask_form x : Z.land x c_typeMask = typebits x * 2 ^ 56.
Proof.
  unfold typebits. change c_typeMask with (Z.ones 7 * 2 ^ 56). change 128 with (2 ^ 7).
  apply Z.bits_inj'. intros i Hi. rewrite Z.land_spec.
  destruct (Z.lt_ge_cases i 56) as [Hlt|Hge].
  - rewrite !Z.mul_pow2_bits_low by lia. apply andb_false_r.
  - rewrite !Z.mul_pow2_bits by lia.
    destruct (Z.lt_ge_cases (i - 56) 7) as [Hl|Hg].
    + rewrite Z.ones_spec_low by lia. rewrite Z.mod_pow2_bits_low by lia.
      rewrite Z.div_pow2_bits by lia. rewrite andb_true_r. f_equal. lia.
    + rewrite Z.ones_spec_high by lia. rewrite Z.mod_pow2_bits_high by lia.
      apply andb_false_r.
Qed.

Lemma fin128 (f g : Z -> string) :
  forallb (fun n => String.eqb (f (Z.of_nat n)) (g (Z.of_nat n))) (seq 0 128) = true ->
  forall m, 0 <= m < 128 -> f m = g m.
Proof.
  intros H m Hm. rewrite forallb_forall in H.
  specialize (H (Z.to_nat m)). rewrite Z2Nat.id in H by lia.
  apply String.eqb_eq. apply H. apply in_seq. lia.
Qed.

Ltac kind_finite x :=
  rewrite ?(land_typeMask_form x);
  generalize (typebits_range x); generalize (typebits x);
  match goal with
  | |- forall m, 0 <= m < 128 -> @?f m = @?g m => apply (fin128 f g); vm_compute; reflexivity
  end.

Ltac bits_ac :=
  apply Z.bits_inj'; let n := fresh "n" in let Hn := fresh "Hn" in intros n Hn;
  rewrite ?Z.lor_spec, ?Z.land_spec, ?Z.lxor_spec; btauto.

Ltac split_tests :=
  repeat match goal with
         | |- context [Z.eqb ?a ?b] => destruct (Z.eqb a b)
         end.

Ltac gen_sem :=
  intros; gen_unfold; rewrite ?land_feature_type, ?land_feature_ref;
  first [ reflexivity
        | solve [split_tests; reflexivity]
        | solve [bits_ac]
        | solve [f_equal; bits_ac]
        | solve [match goal with |- context [Z.land ?x c_typeMask] => kind_finite x end] ].

(* ---------- constructors ---------- *)

Lemma NodeID_FeatureID_sem r : NodeID_FeatureID r = ctor_spec c_nodeMask r.
Proof. gen_sem. Qed.
Lemma WayID_FeatureID_sem r : WayID_FeatureID r = ctor_spec c_wayMask r.
Proof. gen_sem. Qed.
Lemma RelationID_FeatureID_sem r : RelationID_FeatureID r = ctor_spec c_relationMask r.
Proof. gen_sem. Qed.
Lemma ChangesetID_ObjectID_sem r : ChangesetID_ObjectID r = ctor_spec c_changesetMask r.
Proof. gen_sem. Qed.
Lemma NoteID_ObjectID_sem r : NoteID_ObjectID r = ctor_spec c_noteMask r.
Proof. gen_sem. Qed.
Lemma UserID_ObjectID_sem r : UserID_ObjectID r = ctor_spec c_userMask r.
Proof. gen_sem. Qed.
Lemma Bounds_ObjectID_sem b : Bounds_ObjectID b = c_boundsMask.
Proof. gen_sem. Qed.

Lemma FeatureID_ElementID_sem f v : FeatureID_ElementID f v = ver_spec f v.
Proof. gen_sem. Qed.
Lemma FeatureID_ObjectID_sem f v : FeatureID_ObjectID f v = ver_spec f v.
Proof. gen_sem. Qed.

Lemma NodeID_ElementID_sem r v : NodeID_ElementID r v = ver_spec (ctor_spec c_nodeMask r) v.
Proof. gen_sem. Qed.
Lemma WayID_ElementID_sem r v : WayID_ElementID r v = ver_spec (ctor_spec c_wayMask r) v.
Proof. gen_sem. Qed.
Lemma RelationID_ElementID_sem r v : RelationID_ElementID r v = ver_spec (ctor_spec c_relationMask r) v.
Proof. gen_sem. Qed.
Lemma NodeID_ObjectID_sem r v : NodeID_ObjectID r v = ver_spec (ctor_spec c_nodeMask r) v.
Proof. gen_sem. Qed.
Lemma WayID_ObjectID_sem r v : WayID_ObjectID r v = ver_spec (ctor_spec c_wayMask r) v.
Proof. gen_sem. Qed.
Lemma RelationID_ObjectID_sem r v : RelationID_ObjectID r v = ver_spec (ctor_spec c_relationMask r) v.
Proof. gen_sem. Qed.

(* ---------- decoders ---------- *)

Lemma ObjectID_Ref_sem x : ObjectID_Ref x = ref_spec x.
Proof. gen_sem. Qed.
Lemma ElementID_Ref_sem x : ElementID_Ref x = ref_spec x.
Proof. gen_sem. Qed.
Lemma FeatureID_Ref_sem x : FeatureID_Ref x = ref_spec x.
Proof. gen_sem. Qed.
Lemma ObjectID_Version_sem x : ObjectID_Version x = version_spec x.
Proof. gen_sem. Qed.
Lemma ElementID_Version_sem x : ElementID_Version x = version_spec x.
Proof. gen_sem. Qed.
Lemma ElementID_FeatureID_sem x : ElementID_FeatureID x = feature_spec x.
Proof. gen_sem. Qed.
Lemma ElementID_ObjectID_sem x : ElementID_ObjectID x = x.
Proof. gen_sem. Qed.

Lemma FeatureID_Type_sem x : FeatureID_Type x = feature_type_spec x.
Proof. gen_sem. Qed.
Lemma ElementID_Type_sem x : ElementID_Type x = element_type_spec x.
Proof. gen_sem. Qed.
Lemma ObjectID_Type_sem x : ObjectID_Type x = object_type_spec x.
Proof. gen_sem. Qed.

(* ---------- panicking conversions ---------- *)

Lemma FeatureID_NodeID_sem x : FeatureID_NodeID x = conv_spec c_nodeMask x.
Proof. gen_sem. Qed.
Lemma FeatureID_WayID_sem x : FeatureID_WayID x = conv_spec c_wayMask x.
Proof. gen_sem. Qed.
Lemma FeatureID_RelationID_sem x : FeatureID_RelationID x = conv_spec c_relationMask x.
Proof. gen_sem. Qed.
Lemma ElementID_NodeID_sem x : ElementID_NodeID x = conv_spec c_nodeMask x.
Proof. gen_sem. Qed.
Lemma ElementID_WayID_sem x : ElementID_WayID x = conv_spec c_wayMask x.
Proof. gen_sem. Qed.
Lemma ElementID_RelationID_sem x : ElementID_RelationID x = conv_spec c_relationMask x.
Proof. gen_sem. Qed.

(* ---- struct-level methods: Node.ElementID() etc. are the per-id constructors on the
        fields ID and Version ---- *)
Lemma Node_ObjectID_sem r v : Node_ObjectID r v = ver_spec (ctor_spec c_nodeMask r) v.
Proof. gen_sem. Qed.
Lemma Node_ElementID_sem r v : Node_ElementID r v = ver_spec (ctor_spec c_nodeMask r) v.
Proof. gen_sem. Qed.
Lemma Node_FeatureID_sem r : Node_FeatureID r = ctor_spec c_nodeMask r.
Proof. gen_sem. Qed.
Lemma Way_ObjectID_sem r v : Way_ObjectID r v = ver_spec (ctor_spec c_wayMask r) v.
Proof. gen_sem. Qed.
Lemma Way_ElementID_sem r v : Way_ElementID r v = ver_spec (ctor_spec c_wayMask r) v.
Proof. gen_sem. Qed.
Lemma Way_FeatureID_sem r : Way_FeatureID r = ctor_spec c_wayMask r.
Proof. gen_sem. Qed.
Lemma Relation_ObjectID_sem r v : Relation_ObjectID r v = ver_spec (ctor_spec c_relationMask r) v.
Proof. gen_sem. Qed.
Lemma Relation_ElementID_sem r v : Relation_ElementID r v = ver_spec (ctor_spec c_relationMask r) v.
Proof. gen_sem. Qed.
Lemma Relation_FeatureID_sem r : Relation_FeatureID r = ctor_spec c_relationMask r.
Proof. gen_sem. Qed.
Lemma Changeset_ObjectID_sem r : Changeset_ObjectID r = ctor_spec c_changesetMask r.
Proof. gen_sem. Qed.
Lemma Note_ObjectID_sem r : Note_ObjectID r = ctor_spec c_noteMask r.
Proof. gen_sem. Qed.
Lemma User_ObjectID_sem r : User_ObjectID r = ctor_spec c_userMask r.
Proof. gen_sem. Qed.

(* the three type constants and the masks are pairwise different (finite check on the data) *)
Lemma masks_distinct :
  forallb (fun p => negb (fst p =? snd p))
    [(c_nodeMask, c_wayMask); (c_nodeMask, c_relationMask); (c_wayMask, c_relationMask);
     (c_nodeMask, c_changesetMask); (c_wayMask, c_changesetMask); (c_relationMask, c_changesetMask);
     (c_noteMask, c_userMask); (c_noteMask, c_boundsMask); (c_userMask, c_boundsMask)] = true.
Proof. vm_compute. reflexivity. Qed.
