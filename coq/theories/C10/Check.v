(* C10/Check.v — correspondence + property oracle for one harness case (executable only).

   Case layouts (first token = tag):
   1 ID    : k r v | oid otype oref over ostr oparse_ok oparse
                   | is_elem [eid etype eref ever efeat estr eparse_ok eparse
                              fid ftype fref fstr fparse_ok fparse]
   2 SORT  : which(0 ElementIDs,1 FeatureIDs,2 Elements) n (k r v)* | n id*   (observed order)
   3 PARSE : which(0 object,1 element,2 feature) string | ok id
   codes: 1 = model <> implementation, 2 = property oracle fails on the observation,
          0 = case does not parse. *)
From Coq Require Import ZArith List String Ascii Bool.
From Verif Require Import Base.Wire Base.Int64 C10.Model.
From VerifGen Require Import GenIds.
Import ListNotations.
Open Scope Z_scope.
Open Scope wire_scope.

Definition kind_of_code (c : Z) : option kind := nth_error all_kinds (Z.to_nat c).

Definition pkind : P kind :=
  c <- pint ;; match kind_of_code c with Some k => ret k | None => pfail end.

Definition oZ_eqb := opt_eqb Z.eqb.
Definition obs_opt (ok : bool) (v : Z) : option Z := if ok then Some v else None.

(* ---- ID ---- *)
Definition check_id : P (list Z) :=
  k <- pkind ;; r <- pint ;; v <- pint ;;
  oid <- pint ;; otype <- pstring ;; oref <- pint ;; over <- pint ;; ostr <- pstring ;;
  opok <- pbool ;; opv <- pint ;;
  iselem <- pbool ;;
  let m_oid := object_id k r v in
  let j1o :=
    (m_oid =? oid) && String.eqb (ObjectID_Type oid) otype && (ObjectID_Ref oid =? oref)
    && (ObjectID_Version oid =? over) && String.eqb (object_id_string oid) ostr
    && oZ_eqb (parse_object_id ostr) (obs_opt opok opv) in
  let j2o :=
    (oid =? pack k (norm_r k r) (norm_v k v)) && String.eqb otype (kind_name k)
    && (oref =? norm_r k r) && (over =? norm_v k v) && opok && (opv =? oid) in
  if iselem then
    eid <- pint ;; etype <- pstring ;; eref <- pint ;; ever <- pint ;; efeat <- pint ;;
    estr <- pstring ;; epok <- pbool ;; epv <- pint ;;
    fid <- pint ;; ftype <- pstring ;; fref <- pint ;; fstr <- pstring ;;
    fpok <- pbool ;; fpv <- pint ;;
    let j1e :=
      (element_id k r v =? eid) && String.eqb (ElementID_Type eid) etype
      && (ElementID_Ref eid =? eref) && (ElementID_Version eid =? ever)
      && (ElementID_FeatureID eid =? efeat) && String.eqb (element_id_string eid) estr
      && oZ_eqb (parse_element_id estr) (obs_opt epok epv)
      && (feature_id k r =? fid) && String.eqb (FeatureID_Type fid) ftype
      && (FeatureID_Ref fid =? fref) && String.eqb (feature_id_string fid) fstr
      && oZ_eqb (parse_feature_id fstr) (obs_opt fpok fpv) in
    let j2e :=
      is_element k && (eid =? pack k r v) && (eid =? oid) && String.eqb etype (kind_name k)
      && (eref =? r) && (ever =? v) && (efeat =? pack k r 0) && epok && (epv =? eid)
      && (fid =? pack k r 0) && String.eqb ftype (kind_name k) && (fref =? r)
      && fpok && (fpv =? fid) in
    ret (code_if (j1o && j1e) 1 ++ code_if (j2o && j2e) 2)%list
  else
    ret (code_if j1o 1 ++ code_if (j2o && negb (is_element k)) 2)%list.

(* ---- SORT ---- *)
Fixpoint insert_sorted (x : Z) (l : list Z) : list Z :=
  match l with
  | [] => [x]
  | y :: r => if x <=? y then x :: l else y :: insert_sorted x r
  end.
Definition isort (l : list Z) : list Z := fold_right insert_sorted [] l.

(* spec-side comparison of triples, independent of pack *)
Definition lex_leb (a b : kind * Z * Z) : bool :=
  let '(k, r, v) := a in let '(k', r', v') := b in
  (rank k <? rank k') ||
  ((rank k =? rank k') && ((r <? r') || ((r =? r') && (v <=? v')))).

Fixpoint sortedb {A} (le : A -> A -> bool) (l : list A) : bool :=
  match l with
  | a :: ((b :: _) as r) => le a b && sortedb le r
  | _ => true
  end.

Definition triple_of_id (id : Z) : option (kind * Z * Z) :=
  match kind_of_name (ObjectID_Type id) with
  | Some k => Some (k, ObjectID_Ref id, ObjectID_Version id)
  | None => None
  end.

Fixpoint all_some {A} (l : list (option A)) : option (list A) :=
  match l with
  | [] => Some []
  | Some a :: r => match all_some r with Some r' => Some (a :: r') | None => None end
  | None :: _ => None
  end.

Definition ptriple : P (kind * Z * Z) := k <- pkind ;; r <- pint ;; v <- pint ;; ret (k, r, v).

Definition check_sort : P (list Z) :=
  which <- pint ;; inp <- plist ptriple ;; obs <- plist pint ;;
  let ids := map (fun '(k, r, v) => if which =? 1 then feature_id k r else element_id k r v) inp in
  let j1 := list_eqb Z.eqb (isort ids) obs in
  (* oracle: the observed ids decode (with the SPEC decoder = arithmetic) to triples sorted by
     (kind, ref, version) and are a permutation of the input triples' packed values *)
  let spec_ids := map (fun '(k, r, v) => pack k r (if which =? 1 then 0 else v)) inp in
  let j2 :=
    list_eqb Z.eqb (isort spec_ids) (isort obs) &&
    match all_some (map triple_of_id obs) with
    | Some ts => sortedb lex_leb ts
    | None => false
    end in
  ret (code_if j1 1 ++ code_if j2 2)%list.

(* ---- PARSE ---- *)
Definition nocharb (c : ascii) (s : string) : bool :=
  match split_on c s with [_] => true | _ => false end.

(* the shape named by the property, decided on the text alone (independent of the parser
   model's control flow): exactly one '/', known kind, at most one ':', decimal parts *)
Definition decimalb (s : string) : bool :=
  match s with
  | String "-" r | String "+" r => negb (String.eqb r "") && all_digits r
  | _ => negb (String.eqb s "") && all_digits s
  end.

Definition shapeb (which : Z) (s : string) : bool :=
  match split_on slash s with
  | [t; rest] =>
      match kind_of_name t with
      | Some k =>
          (if which =? 0 then true else is_element k) &&
          (if which =? 2 then decimalb rest
           else match split_on colon rest with
                | [a] => decimalb a
                | [a; b] => decimalb a && (String.eqb b "-" || decimalb b)
                | _ => false
                end)
      | None => false
      end
  | _ => false
  end.

Definition check_parse : P (list Z) :=
  which <- pint ;; s <- pstring ;; ok <- pbool ;; v <- pint ;;
  let m := if which =? 0 then parse_object_id s
           else if which =? 1 then parse_element_id s else parse_feature_id s in
  let j1 := oZ_eqb m (obs_opt ok v) in
  let j2 := if shapeb which s then true else negb ok in
  ret (code_if j1 1 ++ code_if j2 2)%list.

Definition check_case (t : toks) : list Z :=
  match t with
  | tag :: rest =>
      let p := if tag =? 2 then check_id        (* tags are zigzag-encoded: 1 -> 2, 2 -> 4, 3 -> 6 *)
               else if tag =? 4 then check_sort
               else if tag =? 6 then check_parse
               else pfail in
      match parse_all p rest with Some codes => codes | None => [0] end
  | [] => [0]
  end.

(* explain_case: the model's side of a case, for replays *)
Definition explain_case (t : toks) : list Z := check_case t.
