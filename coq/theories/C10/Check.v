(* C10/Check.v — correspondence + property oracle for one harness case (executable only).

   Case layouts (first token = tag):
   1 ID    : k r v | oid otype oref over ostr oparse_ok oparse
                   | is_elem [eid etype eref ever efeat estr eparse_ok eparse
                              fid ftype fref fstr fparse_ok fparse]
   2 SORT  : which(0 ElementIDs,1 FeatureIDs,2 Elements) n (k r v)* | n id*   (observed order)
   3 PARSE : which(0 object,1 element,2 feature) string | ok id
   5 COUNTS: which(0 FeatureIDs.Counts, 1 ElementIDs.Counts) n (k r v)* (any of the 7 kinds) | nodes ways relations
   6 LIST  : which(0 Elements.ElementIDs, 1 Elements.FeatureIDs, 2 Objects.ObjectIDs) n (k r v)* | n id* | result was nil
   7 WNODE : id version | WayNode.FeatureID WayNode.ElementID
   8 MEMBER: type-string ref version | (ok, Member.FeatureID) (ok, Member.ElementID)   ok = no panic
   9 TYPEF : type-string ref | (ok, Type.FeatureID)                                     ok = no error
   10 OOR  : k (element kind) r v, ANY int64 r and v (outside the property) |
             feature id, its Ref, element id, its Version.  Judgement 2 here is not the property
             but the closed formulas of C10/OutOfRange.v (reference mod 2^40, version mod 2^16,
             type field = kind code OR bits 40..46 of r, sign = bit 47 of r)
   11 BIGSORT: which(0 ElementIDs.Sort, 1 FeatureIDs.Sort, 2 Elements.Sort) mode n seed
             | length of the output, first index i with out[i-1] > out[i] (-1: none),
               sum / sum-of-squares / rolling hash of the output (32-bit).
             The list itself is NOT sent: both sides expand (mode, n, seed) with the same
             generator (mode 0: 64-bit LCG; 1: n-1 descending way ids then one node id;
             2: ascending node ids with the last three reversed).  Judgement 1: the rolling hash
             of the model's sorted list (merge sort of the expanded ids) equals the observed one;
             judgement 2: the output is in order and has the multiset hashes of the input.
   12 STRSEQ : which(0 ObjectID.String, 1 ElementID.String, 2 FeatureID.String) n (k r v)*
             | n times: the string KEPT since its call and read after ALL calls were made,
               whether it still equals the copy taken when it was returned, and the result of
               parsing the kept string (ok, id).  State carried across calls.
   13 COLL  : which(0 WayNodes, 1 Members, 2 Nodes, 3 Ways, 4 Relations, 5 OSM) n (k r v)*
             | ElementIDs() | FeatureIDs() | plain ids (NodeIDs()/IDs(); empty for Members and OSM)
   4 CONV  : k r v (element kind, in range) | for K in node, way, relation:
             (ok, value) of FeatureID.KID() on the feature id, then the same three for
             ElementID.KID() on the element id  (ok = did not panic)
   codes: 1 = model <> implementation, 2 = property oracle fails on the observation,
          0 = case does not parse. *)
From Coq Require Import ZArith List String Ascii Bool Mergesort Orders Lia.
From Verif Require Import Base.Wire Base.Int64 C10.Model.
From VerifGen Require Import GenIds.
Import ListNotations.
Open Scope Z_scope.
Open Scope wire_scope.

Definition kind_of_code (c : Z) : option kind := nth_error all_kinds (Z.to_nat c).

Definition pkind : P kind :=
  c <- pint ;; match kind_of_code c with Some k => ret k | None => pfail end.

Definition oZ_eqb := opt_eqb Z.eqb.
Definition obs_opt (ok : bool) (v : Z) : option Z := if ok then Some v else None.

(* ---- ID ---- *)
Definition check_id : P (list Z) :=
  k <- pkind ;; r <- pint ;; v <- pint ;;
  oid <- pint ;; otype <- pstring ;; oref <- pint ;; over <- pint ;; ostr <- pstring ;;
  opok <- pbool ;; opv <- pint ;;
  iselem <- pbool ;;
  let m_oid := object_id k r v in
  let j1o :=
    (m_oid =? oid) && String.eqb (ObjectID_Type oid) otype && (ObjectID_Ref oid =? oref)
    && (ObjectID_Version oid =? over) && String.eqb (object_id_string oid) ostr
    && oZ_eqb (parse_object_id ostr) (obs_opt opok opv) in
  let j2o :=
    (oid =? pack k (norm_r k r) (norm_v k v)) && String.eqb otype (kind_name k)
    && (oref =? norm_r k r) && (over =? norm_v k v) && opok && (opv =? oid) in
  if iselem then
    eid <- pint ;; etype <- pstring ;; eref <- pint ;; ever <- pint ;; efeat <- pint ;;
    estr <- pstring ;; epok <- pbool ;; epv <- pint ;;
    fid <- pint ;; ftype <- pstring ;; fref <- pint ;; fstr <- pstring ;;
    fpok <- pbool ;; fpv <- pint ;;
    let j1e :=
      (element_id k r v =? eid) && String.eqb (ElementID_Type eid) etype
      && (ElementID_Ref eid =? eref) && (ElementID_Version eid =? ever)
      && (ElementID_FeatureID eid =? efeat) && String.eqb (element_id_string eid) estr
      && oZ_eqb (parse_element_id estr) (obs_opt epok epv)
      && (feature_id k r =? fid) && String.eqb (FeatureID_Type fid) ftype
      && (FeatureID_Ref fid =? fref) && String.eqb (feature_id_string fid) fstr
      && oZ_eqb (parse_feature_id fstr) (obs_opt fpok fpv) in
    let j2e :=
      is_element k && (eid =? pack k r v) && (eid =? oid) && String.eqb etype (kind_name k)
      && (eref =? r) && (ever =? v) && (efeat =? pack k r 0) && epok && (epv =? eid)
      && (fid =? pack k r 0) && String.eqb ftype (kind_name k) && (fref =? r)
      && fpok && (fpv =? fid) in
    ret (code_if (j1o && j1e) 1 ++ code_if (j2o && j2e) 2)%list
  else
    ret (code_if j1o 1 ++ code_if (j2o && negb (is_element k)) 2)%list.

(* ---- SORT ---- *)
Fixpoint insert_sorted (x : Z) (l : list Z) : list Z :=
  match l with
  | [] => [x]
  | y :: r => if x <=? y then x :: l else y :: insert_sorted x r
  end.
Definition isort (l : list Z) : list Z := fold_right insert_sorted [] l.

(* spec-side comparison of triples, independent of pack *)
Definition lex_leb (a b : kind * Z * Z) : bool :=
  let '(k, r, v) := a in let '(k', r', v') := b in
  (rank k <? rank k') ||
  ((rank k =? rank k') && ((r <? r') || ((r =? r') && (v <=? v')))).

Fixpoint sortedb {A} (le : A -> A -> bool) (l : list A) : bool :=
  match l with
  | a :: ((b :: _) as r) => le a b && sortedb le r
  | _ => true
  end.

(* insertion sort of the INPUT triples by the spec order (kind rank, ref, version) *)
Fixpoint insert_lex (x : kind * Z * Z) (l : list (kind * Z * Z)) : list (kind * Z * Z) :=
  match l with
  | [] => [x]
  | y :: r => if lex_leb x y then x :: l else y :: insert_lex x r
  end.
Definition lex_sort (l : list (kind * Z * Z)) : list (kind * Z * Z) := fold_right insert_lex [] l.

Definition ptriple : P (kind * Z * Z) := k <- pkind ;; r <- pint ;; v <- pint ;; ret (k, r, v).

Definition check_sort : P (list Z) :=
  which <- pint ;; inp <- plist ptriple ;; obs <- plist pint ;;
  let ids := map (fun '(k, r, v) => if which =? 1 then feature_id k r else element_id k r v) inp in
  let j1 := list_eqb Z.eqb (isort ids) obs in
  (* oracle, independent of every function translated from /repo: sort the INPUT triples by
     (kind, reference, version) with the spec order and pack them arithmetically; the observed
     list must be exactly that *)
  let norm := map (fun '(k, r, v) => (k, r, if which =? 1 then 0 else v)) inp in
  let j2 := list_eqb Z.eqb (map (fun '(k, r, v) => pack k r v) (lex_sort norm)) obs in
  ret (code_if j1 1 ++ code_if j2 2)%list.

(* ---- PARSE ---- *)
Definition nocharb (c : ascii) (s : string) : bool :=
  match split_on c s with [_] => true | _ => false end.

Definition check_parse : P (list Z) :=
  which <- pint ;; s <- pstring ;; ok <- pbool ;; v <- pint ;;
  let m := if which =? 0 then parse_object_id s
           else if which =? 1 then parse_element_id s else parse_feature_id s in
  let j1 := oZ_eqb m (obs_opt ok v) in
  (* oracle, from the text alone: no shape -> error; shape and numbers in range -> exactly the
     packed id of the kind, reference and version the text denotes; shape with numbers outside
     the range of the property: not specified *)
  let j2 :=
    if shapeb which s then
      match denoted which s with
      | Some (k, r, ver) =>
          if in_rangeb r ver
          then oZ_eqb (obs_opt ok v) (Some (pack k (norm_r k r) (norm_v k ver)))
          else true
      | None => false
      end
    else negb ok in
  ret (code_if j1 1 ++ code_if j2 2)%list.

(* ---- CONV: the panicking conversions ---- *)
Definition pobs : P (option Z) := ok <- pbool ;; v <- pint ;; ret (obs_opt ok v).

Definition conv_kinds := [KNode; KWay; KRelation].

Definition check_conv : P (list Z) :=
  k <- pkind ;; r <- pint ;; v <- pint ;;
  fo <- prep 3 pobs ;; eo <- prep 3 pobs ;;
  let fid := feature_id k r in
  let eid := element_id k r v in
  let j1 :=
    list_eqb oZ_eqb (map (fun K => conv_feature K fid) conv_kinds) fo
    && list_eqb oZ_eqb (map (fun K => conv_element K eid) conv_kinds) eo in
  (* the conversion to kind K succeeds exactly on ids of kind K, and then gives the ref *)
  let want := map (fun K => if kind_eqb K k then Some r else None) conv_kinds in
  let j2 := is_element k && list_eqb oZ_eqb want fo && list_eqb oZ_eqb want eo in
  ret (code_if j1 1 ++ code_if j2 2)%list.

(* ---- COUNTS ---- *)
Definition z3_eqb (a b : Z * Z * Z) : bool :=
  let '(x, y, z) := a in let '(x', y', z') := b in (x =? x') && (y =? y') && (z =? z').

Definition count_kindb (K : kind) (l : list (kind * Z * Z)) : Z :=
  Z.of_nat (List.length (filter (fun t => kind_eqb (fst (fst t)) K) l)).

Definition check_counts : P (list Z) :=
  which <- pint ;; inp <- plist ptriple ;; n <- pint ;; w <- pint ;; r <- pint ;;
  let ids := objects_object_ids inp in
  let m := if which =? 0 then feature_ids_counts ids else element_ids_counts ids in
  let j1 := z3_eqb m (n, w, r) in
  let j2 := z3_eqb (count_kindb KNode inp, count_kindb KWay inp, count_kindb KRelation inp) (n, w, r) in
  ret (code_if j1 1 ++ code_if j2 2)%list.

(* ---- LIST ---- *)
Definition check_list : P (list Z) :=
  which <- pint ;; inp <- plist ptriple ;; obs <- plist pint ;; isnil <- pbool ;;
  let m := if which =? 0 then elements_element_ids inp
           else if which =? 1 then elements_feature_ids inp else objects_object_ids inp in
  let j1 := list_eqb Z.eqb m obs && Bool.eqb isnil (match inp with [] => true | _ => false end) in
  let spec := map (fun '(k, r, v) => if which =? 1 then pack k r 0
                                     else pack k (norm_r k r) (norm_v k v)) inp in
  let j2 := list_eqb Z.eqb spec obs in
  ret (code_if j1 1 ++ code_if j2 2)%list.

(* ---- WNODE / MEMBER / TYPEF ---- *)
Definition check_wnode : P (list Z) :=
  id <- pint ;; ver <- pint ;; fid <- pint ;; eid <- pint ;;
  let j1 := (way_node_feature_id id =? fid) && (way_node_element_id id ver =? eid) in
  let j2 := (fid =? pack KNode id 0) && (eid =? pack KNode id ver) in
  ret (code_if j1 1 ++ code_if j2 2)%list.

Definition element_kind_of_name (t : string) : option kind :=
  match kind_of_name t with
  | Some k => if is_element k then Some k else None
  | None => None
  end.

Definition check_member : P (list Z) :=
  typ <- pstring ;; ref <- pint ;; ver <- pint ;; fo <- pobs ;; eo <- pobs ;;
  let j1 := oZ_eqb (member_feature_id typ ref) fo && oZ_eqb (member_element_id typ ref ver) eo in
  let j2 :=
    match element_kind_of_name typ with
    | Some k => oZ_eqb fo (Some (pack k ref 0)) && oZ_eqb eo (Some (pack k ref ver))
    | None => oZ_eqb fo None && oZ_eqb eo None
    end in
  ret (code_if j1 1 ++ code_if j2 2)%list.

Definition check_typef : P (list Z) :=
  typ <- pstring ;; ref <- pint ;; fo <- pobs ;;
  let j1 := oZ_eqb (GenIds.Type_FeatureID typ ref) fo in
  let j2 :=
    match element_kind_of_name typ with
    | Some k => oZ_eqb fo (Some (pack k ref 0))
    | None => oZ_eqb fo None
    end in
  ret (code_if j1 1 ++ code_if j2 2)%list.

(* ---- OOR: outside the domain of the property ---- *)
Definition check_oor : P (list Z) :=
  k <- pkind ;; r <- pint ;; v <- pint ;;
  fid <- pint ;; fref <- pint ;; eid <- pint ;; ever <- pint ;;
  let mf := feature_id k r in
  let me := element_id k r v in
  let j1 := (mf =? fid) && (FeatureID_Ref mf =? fref) && (me =? eid) && (ElementID_Version me =? ever) in
  let j2 :=
    is_element k
    && (fref =? r mod two40) && (ever =? v mod two16)
    && (Z.land fid c_typeMask =? Z.lor (kcode k) ((r / two40) mod 128) * two56)
    && Bool.eqb (fid <? 0) (Z.testbit r 47) in
  ret (code_if j1 1 ++ code_if j2 2)%list.

(* ---- BIGSORT: long lists, described by generator parameters ---- *)
Module ZLe <: TotalLeBool.
  Definition t := Z.
  Definition leb := Z.leb.
  Theorem leb_total : forall a1 a2, leb a1 a2 = true \/ leb a2 a1 = true.
  Proof. intros a1 a2. unfold leb. destruct (Z.leb_spec a1 a2); [left; reflexivity|right; apply Z.leb_le; lia]. Qed.
End ZLe.
Module ZSort := Sort ZLe.

(* bit operations instead of division: Z division is slow inside vm_compute *)
Definition mask64 : Z := 18446744073709551615.
Definition mask40 : Z := 1099511627775.
Definition mask32 : Z := 4294967295.
Definition lcg_next (x : Z) : Z := Z.land (6364136223846793005 * x + 1442695040888963407) mask64.

Definition kind_of_index (i : Z) : kind := if i =? 1 then KWay else if i =? 2 then KRelation else KNode.

Fixpoint gen_random (n : nat) (x : Z) : list (kind * Z * Z) :=
  match n with
  | O => []
  | S m =>
      let y := lcg_next x in
      (kind_of_index (Z.land (Z.shiftr y 33) 3), Z.land (Z.shiftr y 13) mask40, Z.land y 65535)
        :: gen_random m y
  end.

Fixpoint gen_desc_ways (n : nat) (i : Z) : list (kind * Z * Z) :=
  match n with
  | O => []
  | S m => (KWay, i, 1) :: gen_desc_ways m (i - 1)
  end.

Fixpoint gen_asc_nodes (i : Z) (n : nat) : list (kind * Z * Z) :=
  match n with
  | O => []
  | S m => (KNode, i, 1) :: gen_asc_nodes (i + 1) m
  end.

Definition gen_big (mode : Z) (n : nat) (seed : Z) : list (kind * Z * Z) :=
  if mode =? 0 then gen_random n seed
  else if mode =? 1 then
    match n with O => [] | S m => (gen_desc_ways m (Z.of_nat m) ++ [(KNode, 1, 1)])%list end
  else
    match n with
    | S (S (S m)) =>
        let base := Z.of_nat m in
        (gen_asc_nodes 1 m ++ [(KNode, base + 3, 1); (KNode, base + 2, 1); (KNode, base + 1, 1)])%list
    | _ => gen_asc_nodes 1 n
    end.

(* three 32-bit hashes of a list of ids (uint32 wrap-around arithmetic on the Go side):
   sum, sum of squares (order-insensitive) and a rolling hash (order-sensitive) *)
Definition hB : Z := 1000003.
Definition hashes (l : list Z) : Z * Z * Z :=
  fold_left (fun '(su, sq, ro) id =>
               let m := Z.land (Z.lxor id (Z.shiftr id 29)) mask32 in
               (Z.land (su + m) mask32, Z.land (sq + m * m) mask32, Z.land (ro * hB + m) mask32))
            l (0, 0, 0).

Definition check_bigsort : P (list Z) :=
  which <- pint ;; mode <- pint ;; n <- pnat ;; seed <- pint ;;
  olen <- pint ;; dis <- pint ;; osu <- pint ;; osq <- pint ;; oro <- pint ;;
  let inp := gen_big mode n seed in
  let ids := map (fun '(k, r, v) => if which =? 1 then feature_id k r else element_id k r v) inp in
  let '(_, _, mro) := hashes (ZSort.sort ids) in
  let j1 := (mro =? oro) && (olen =? Z.of_nat n) in
  let spec_ids := map (fun '(k, r, v) => pack k r (if which =? 1 then 0 else v)) inp in
  let '(isu, isq, _) := hashes spec_ids in
  let j2 := (dis =? -1) && (olen =? Z.of_nat n) && (osu =? isu) && (osq =? isq) in
  ret (code_if j1 1 ++ code_if j2 2)%list.

(* ---- STRSEQ: strings kept across later String() calls ---- *)
Definition pkept : P (string * bool * option Z) :=
  s <- pstring ;; same <- pbool ;; o <- pobs ;; ret (s, same, o).

Fixpoint check_kept (which : Z) (inp : list (kind * Z * Z)) (obs : list (string * bool * option Z))
  : bool * bool :=
  match inp, obs with
  | [], [] => (true, true)
  | (k, r, v) :: inp', (s, same, o) :: obs' =>
      let id := if which =? 2 then feature_id k r else if which =? 1 then element_id k r v else object_id k r v in
      let ms := if which =? 2 then feature_id_string id else if which =? 1 then element_id_string id else object_id_string id in
      let mp := if which =? 2 then parse_feature_id s else if which =? 1 then parse_element_id s else parse_object_id s in
      let want := if which =? 2 then pack k r 0 else pack k (norm_r k r) (norm_v k v) in
      let '(a, b) := check_kept which inp' obs' in
      (String.eqb ms s && oZ_eqb mp o && a,
       (* the text kept since the call is still the text of THAT id and parses back to it *)
       same && oZ_eqb o (Some want) && b)
  | _, _ => (false, false)
  end.

Definition check_strseq : P (list Z) :=
  which <- pint ;; inp <- plist ptriple ;; obs <- plist pkept ;;
  let '(j1, j2) := check_kept which inp obs in
  ret (code_if j1 1 ++ code_if j2 2)%list.

(* ---- COLL: collection-level id functions ---- *)
Definition check_coll : P (list Z) :=
  which <- pint ;; inp <- plist ptriple ;; eo <- plist pint ;; fo <- plist pint ;; po <- plist pint ;;
  let plain := if (which =? 1) || (which =? 5) then [] else coll_plain_ids which inp in
  let j1 := list_eqb Z.eqb (coll_element_ids which inp) eo && list_eqb Z.eqb (coll_feature_ids which inp) fo
            && list_eqb Z.eqb plain po in
  (* every id decodes to exactly the kind, reference and version of its item *)
  let ord := coll_order which inp in
  let j2 := list_eqb Z.eqb (map (fun '(k, r, v) => pack k r v) ord) eo && list_eqb Z.eqb (map (fun '(k, r, v) => pack k r 0) ord) fo
            && list_eqb Z.eqb plain po in
  ret (code_if j1 1 ++ code_if j2 2)%list.

Definition check_case (t : toks) : list Z :=
  match t with
  | tag :: rest =>
      let p := if tag =? 2 then check_id        (* tags are zigzag-encoded: 1 -> 2, 2 -> 4, 3 -> 6 *)
               else if tag =? 4 then check_sort
               else if tag =? 6 then check_parse
               else if tag =? 8 then check_conv
               else if tag =? 10 then check_counts
               else if tag =? 12 then check_list
               else if tag =? 14 then check_wnode
               else if tag =? 16 then check_member
               else if tag =? 18 then check_typef
               else if tag =? 20 then check_oor
               else if tag =? 22 then check_bigsort
               else if tag =? 24 then check_strseq
               else if tag =? 26 then check_coll
               else pfail in
      match parse_all p rest with Some codes => codes | None => [0] end
  | [] => [0]
  end.

(* explain_case: the model's side of a case, for replays *)
Definition explain_case (t : toks) : list Z := check_case t.
