(* C10/Conv.v — the rest of the id API: the panicking conversions, Type.objectID / Type.FeatureID
   on arbitrary type strings, ids of way nodes and relation members, Counts, and the id lists
   of Elements / Objects.  All functions mentioned are the generated ones (GenIds) or the
   dispatchers / loop models of Model.v over them. *)
From Coq Require Import ZArith List String Ascii Bool Lia Sorted Permutation.
From Verif Require Import Base.Int64 C10.Model C10.GenSem C10.Proofs.
From VerifGen Require Import GenIds.
Import ListNotations.
Open Scope Z_scope.

(* ---------- panicking conversions ---------- *)

(* On the packed id of ANY of the seven kinds (so also on an object id of a changeset, note, ...
   reinterpreted as a feature id), the conversion to element kind K returns the reference exactly
   when the id is of kind K, and panics otherwise. *)
Lemma ref_spec_pack k r v : in_range r v -> ref_spec (pack k r v) = r.
Proof. intros H. rewrite <- ObjectID_Ref_sem. exact (ref_pack k r v H). Qed.

Lemma conv_spec_pack mask k r v :
  in_range r v ->
  conv_spec mask (pack k r v) = if kcode k * two56 =? mask then Some r else None.
Proof.
  intros H. unfold conv_spec. rewrite (type_bits_pack k r v H), (ref_spec_pack k r v H). reflexivity.
Qed.

Lemma conv_feature_pack K k r v :
  is_element K = true -> in_range r v ->
  conv_feature K (pack k r v) = if kind_eqb K k then Some r else None.
Proof.
  intros HK H.
  destruct K; try discriminate HK; cbn [conv_feature];
    rewrite ?FeatureID_NodeID_sem, ?FeatureID_WayID_sem, ?FeatureID_RelationID_sem;
    rewrite (conv_spec_pack _ k r v H); destruct k; reflexivity.
Qed.

Lemma conv_element_pack K k r v :
  is_element K = true -> in_range r v ->
  conv_element K (pack k r v) = if kind_eqb K k then Some r else None.
Proof.
  intros HK H.
  destruct K; try discriminate HK; cbn [conv_element];
    rewrite ?ElementID_NodeID_sem, ?ElementID_WayID_sem, ?ElementID_RelationID_sem;
    rewrite (conv_spec_pack _ k r v H); destruct k; reflexivity.
Qed.

Lemma conv_feature_id K k r :
  is_element K = true -> is_element k = true -> 0 <= r < two40 ->
  conv_feature K (feature_id k r) = if kind_eqb K k then Some r else None.
Proof.
  intros HK Hk Hr. rewrite (feature_id_pack k r Hk Hr).
  apply conv_feature_pack; [exact HK|]. split; [exact Hr|unfold two16; lia].
Qed.

Lemma conv_element_id K k r v :
  is_element K = true -> is_element k = true -> in_range r v ->
  conv_element K (element_id k r v) = if kind_eqb K k then Some r else None.
Proof.
  intros HK Hk H. rewrite (element_id_pack k r v Hk H). apply conv_element_pack; assumption.
Qed.

(* For the record: the guard the code had before the repair (fix commit 8024a58 in /repo) was the
   subset test  id & mask != mask .  relationMask = nodeMask | wayMask, so a relation id passed
   the node test and the way test: a relation decoded as a node. *)
Definition old_guard_passes (mask id : Z) : bool := Z.land id mask =? mask.
Lemma old_guard_witness :
  exists r, old_guard_passes c_nodeMask (pack KRelation r 0) = true
            /\ old_guard_passes c_wayMask (pack KRelation r 0) = true
            /\ ObjectID_Ref (pack KRelation r 0) = r.
Proof. exists 5. vm_compute. repeat split. Qed.

(* ---------- Type.objectID / Type.FeatureID on arbitrary strings ---------- *)

Lemma kind_of_name_spec t k : kind_of_name t = Some k <-> t = kind_name k.
Proof.
  split.
  - unfold kind_of_name, all_kinds. cbn [find].
    destruct (String.eqb (kind_name KBounds) t) eqn:E1;
      [apply String.eqb_eq in E1; intros H; injection H as <-; symmetry; exact E1|].
    destruct (String.eqb (kind_name KNode) t) eqn:E2;
      [apply String.eqb_eq in E2; intros H; injection H as <-; symmetry; exact E2|].
    destruct (String.eqb (kind_name KWay) t) eqn:E3;
      [apply String.eqb_eq in E3; intros H; injection H as <-; symmetry; exact E3|].
    destruct (String.eqb (kind_name KRelation) t) eqn:E4;
      [apply String.eqb_eq in E4; intros H; injection H as <-; symmetry; exact E4|].
    destruct (String.eqb (kind_name KChangeset) t) eqn:E5;
      [apply String.eqb_eq in E5; intros H; injection H as <-; symmetry; exact E5|].
    destruct (String.eqb (kind_name KNote) t) eqn:E6;
      [apply String.eqb_eq in E6; intros H; injection H as <-; symmetry; exact E6|].
    destruct (String.eqb (kind_name KUser) t) eqn:E7;
      [apply String.eqb_eq in E7; intros H; injection H as <-; symmetry; exact E7|].
    discriminate.
  - intros ->. apply kind_of_name_name.
Qed.

Lemma kind_of_name_none t : kind_of_name t = None -> forall k, t <> kind_name k.
Proof.
  intros H k E. subst t. rewrite kind_of_name_name in H. discriminate.
Qed.

Lemma type_objectID_spec t r v :
  Type_objectID t r v =
  match kind_of_name t with Some k => Some (object_id k r v) | None => None end.
Proof.
  destruct (kind_of_name t) as [k|] eqn:E.
  - apply kind_of_name_spec in E. subst t. apply type_objectID_name.
  - pose proof (kind_of_name_none t E) as Hn.
    unfold Type_objectID.
    repeat match goal with
           | |- context [String.eqb t ?c] =>
               let E0 := fresh "E0" in
               destruct (String.eqb t c) eqn:E0;
               [apply String.eqb_eq in E0; exfalso;
                first [exact (Hn KNode E0)|exact (Hn KWay E0)|exact (Hn KRelation E0)
                      |exact (Hn KChangeset E0)|exact (Hn KNote E0)|exact (Hn KUser E0)
                      |exact (Hn KBounds E0)]|]
           end.
    reflexivity.
Qed.

Lemma type_featureID_spec t r :
  Type_FeatureID t r =
  match kind_of_name t with
  | Some k => if is_element k then Some (feature_id k r) else None
  | None => None
  end.
Proof.
  destruct (kind_of_name t) as [k|] eqn:E.
  - apply kind_of_name_spec in E. subst t. destruct k; reflexivity.
  - pose proof (kind_of_name_none t E) as Hn.
    unfold Type_FeatureID.
    repeat match goal with
           | |- context [String.eqb t ?c] =>
               let E0 := fresh "E0" in
               destruct (String.eqb t c) eqn:E0;
               [apply String.eqb_eq in E0; exfalso;
                first [exact (Hn KNode E0)|exact (Hn KWay E0)|exact (Hn KRelation E0)]|]
           end.
    reflexivity.
Qed.

(* ---------- way nodes and relation members ---------- *)

Lemma way_node_ids id ver :
  in_range id ver ->
  way_node_feature_id id = pack KNode id 0 /\ way_node_element_id id ver = pack KNode id ver.
Proof.
  intros H. split.
  - exact (feature_id_pack KNode id eq_refl (proj1 H)).
  - exact (element_id_pack KNode id ver eq_refl H).
Qed.

(* Member.FeatureID is Type.FeatureID of the member type, a panic replacing the error *)
Lemma member_feature_id_spec typ ref : member_feature_id typ ref = Type_FeatureID typ ref.
Proof.
  (* the body is either the same switch as Type.FeatureID or a call of it with the error
     turned into a panic *)
  unfold member_feature_id, Member_FeatureID.
  first [reflexivity | destruct (Type_FeatureID typ ref); reflexivity].
Qed.

Lemma member_element_id_spec typ ref ver :
  member_element_id typ ref ver =
  match Type_FeatureID typ ref with Some f => Some (FeatureID_ElementID f ver) | None => None end.
Proof.
  unfold member_element_id, Member_ElementID.
  change (Member_FeatureID typ ref) with (member_feature_id typ ref).
  rewrite member_feature_id_spec. reflexivity.
Qed.

Lemma member_ids k r v :
  is_element k = true -> in_range r v ->
  member_feature_id (kind_name k) r = Some (pack k r 0) /\
  member_element_id (kind_name k) r v = Some (pack k r v).
Proof.
  intros Hk H. rewrite member_element_id_spec, member_feature_id_spec, type_featureID_spec.
  rewrite kind_of_name_name, Hk. split.
  - rewrite (feature_id_pack k r Hk (proj1 H)). reflexivity.
  - rewrite <- (element_id_of_feature k r v Hk), (element_id_pack k r v Hk H). reflexivity.
Qed.

Lemma member_ids_panic typ ref ver :
  (forall k, is_element k = true -> typ <> kind_name k) ->
  member_feature_id typ ref = None /\ member_element_id typ ref ver = None.
Proof.
  intros Hn. rewrite member_element_id_spec, member_feature_id_spec, type_featureID_spec.
  destruct (kind_of_name typ) as [k|] eqn:E; [|split; reflexivity].
  apply kind_of_name_spec in E. destruct (is_element k) eqn:Hk; [|split; reflexivity].
  exfalso. exact (Hn k Hk E).
Qed.

(* ---------- Counts ---------- *)

Ltac t3 :=
  match goal with
  | |- (?a, ?b, ?c) = (?a', ?b', ?c') =>
      replace a' with a by lia; replace b' with b by lia; replace c' with c by lia; reflexivity
  end.

Definition count_kind (K : kind) (l : list (kind * Z * Z)) : Z :=
  Z.of_nat (List.length (filter (fun t => kind_eqb (fst (fst t)) K) l)).

Definition add3 (a b : Z * Z * Z) : Z * Z * Z :=
  let '(n, w, r) := a in let '(n', w', r') := b in (n + n', w + w', r + r').

Definition unit_count (k : kind) : Z * Z * Z :=
  match k with
  | KNode => (1, 0, 0) | KWay => (0, 1, 0) | KRelation => (0, 0, 1) | _ => (0, 0, 0)
  end.

Lemma counts_step_element_pack acc k r v :
  in_range r v -> counts_step_element acc (pack k r v) = add3 acc (unit_count k).
Proof.
  intros H. unfold counts_step_element. destruct acc as [[n w] x].
  rewrite (type_bits_pack k r v H).
  destruct k; cbn [kcode unit_count add3];
    repeat match goal with |- context [?a =? ?b] => change (a =? b) with false || change (a =? b) with true end;
    cbv iota; t3.
Qed.

Lemma counts_step_feature_pack acc k r v :
  in_range r v -> counts_step_feature acc (pack k r v) = add3 acc (unit_count k).
Proof.
  intros H. unfold counts_step_feature. destruct acc as [[n w] x].
  rewrite FeatureID_Type_sem. unfold feature_type_spec. rewrite (type_bits_pack k r v H).
  destruct k; cbn [kcode unit_count add3];
    repeat match goal with |- context [?a =? ?b] => change (a =? b) with false || change (a =? b) with true end;
    cbv iota zeta;
    repeat match goal with |- context [String.eqb ?a ?b] => change (String.eqb a b) with false || change (String.eqb a b) with true end;
    cbv iota; t3.
Qed.

Lemma count_kind_cons K k r v l :
  count_kind K ((k, r, v) :: l) = (if kind_eqb k K then 1 else 0) + count_kind K l.
Proof.
  unfold count_kind. cbn [filter fst]. destruct (kind_eqb k K); cbn [List.length]; lia.
Qed.

Lemma fold_counts (step : Z * Z * Z -> Z -> Z * Z * Z) (l : list (kind * Z * Z)) :
  (forall acc k r v, in_range r v -> step acc (pack k r v) = add3 acc (unit_count k)) ->
  Forall in_range3 l ->
  forall acc, fold_left step (map pack3 l) acc =
              add3 acc (count_kind KNode l, count_kind KWay l, count_kind KRelation l).
Proof.
  intros Hstep. induction l as [|[[k r] v] l IH]; intros Hall acc.
  - destruct acc as [[n w] x]. cbn. t3.
  - inversion Hall as [|? ? Hh Ht]; subst. cbn [map fold_left pack3].
    rewrite (Hstep acc k r v Hh), (IH Ht). rewrite !count_kind_cons.
    destruct acc as [[n w] x].
    destruct k; cbn [unit_count add3 kind_eqb]; t3.
Qed.

(* Counts returns, for any list of in-range ids of any of the seven kinds, the number of node,
   way and relation ids in it (other kinds are not counted) *)
Lemma element_ids_counts_spec l :
  Forall in_range3 l ->
  element_ids_counts (map pack3 l) = (count_kind KNode l, count_kind KWay l, count_kind KRelation l).
Proof.
  intros H. unfold element_ids_counts.
  rewrite (fold_counts counts_step_element l counts_step_element_pack H). cbn [add3].
  reflexivity.
Qed.

Lemma feature_ids_counts_spec l :
  Forall in_range3 l ->
  feature_ids_counts (map pack3 l) = (count_kind KNode l, count_kind KWay l, count_kind KRelation l).
Proof.
  intros H. unfold feature_ids_counts.
  rewrite (fold_counts counts_step_feature l counts_step_feature_pack H). cbn [add3].
  reflexivity.
Qed.

Lemma counts_total l :
  Forall (fun t => is_element (fst (fst t)) = true) l ->
  count_kind KNode l + count_kind KWay l + count_kind KRelation l = Z.of_nat (List.length l).
Proof.
  induction l as [|[[k r] v] l IH]; intros H; [reflexivity|].
  inversion H as [|? ? Hk Ht]; subst. cbn [fst] in Hk.
  rewrite !count_kind_cons. cbn [List.length]. specialize (IH Ht).
  destruct k; try discriminate Hk; cbn [kind_eqb]; lia.
Qed.

(* ---------- id lists of Elements / Objects ---------- *)

Lemma elements_element_ids_spec l :
  Forall in_range3 l -> Forall (fun t => is_element (fst (fst t)) = true) l ->
  elements_element_ids l = map pack3 l.
Proof.
  induction l as [|[[k r] v] l IH]; intros H1 H2; [reflexivity|].
  inversion H1; inversion H2; subst. cbn [elements_element_ids map pack3] in *.
  f_equal; [rewrite struct_element_id_eq; apply element_id_pack; assumption|apply IH; assumption].
Qed.

Lemma elements_feature_ids_spec l :
  Forall in_range3 l -> Forall (fun t => is_element (fst (fst t)) = true) l ->
  elements_feature_ids l = map (fun '(k, r, v) => pack k r 0) l.
Proof.
  induction l as [|[[k r] v] l IH]; intros H1 H2; [reflexivity|].
  inversion H1 as [|? ? Hh ?]; inversion H2; subst. cbn [elements_feature_ids map] in *.
  f_equal; [rewrite struct_feature_id_eq; apply feature_id_pack; [assumption|exact (proj1 Hh)]|apply IH; assumption].
Qed.

Lemma objects_object_ids_spec l :
  Forall in_range3 l ->
  objects_object_ids l = map (fun '(k, r, v) => pack k (norm_r k r) (norm_v k v)) l.
Proof.
  induction l as [|[[k r] v] l IH]; intros H1; [reflexivity|].
  inversion H1; subst. cbn [objects_object_ids map] in *.
  f_equal; [rewrite struct_object_id_eq; apply object_id_pack; assumption|apply IH; assumption].
Qed.

(* ---------- collection-level id functions ---------- *)

Lemma coll_order_in_range which l :
  Forall in_range3 l -> Forall (fun t => is_element (fst (fst t)) = true) l ->
  Forall in_range3 (coll_order which l) /\
  Forall (fun t => is_element (fst (fst t)) = true) (coll_order which l).
Proof.
  intros H1 H2. unfold coll_order. destruct (which =? 5); [|split; assumption].
  rewrite Forall_forall in H1, H2.
  split; apply Forall_forall; intros t Ht;
    repeat (apply in_app_or in Ht; destruct Ht as [Ht|Ht]);
    apply filter_In in Ht; destruct Ht as [Ht _]; auto.
Qed.

(* every id of the list decodes to the kind, reference and version of its item, version 0
   included: the lists are the packed ids of the items, in order *)
Lemma coll_ids_spec which l :
  Forall in_range3 l -> Forall (fun t => is_element (fst (fst t)) = true) l ->
  coll_element_ids which l = map pack3 (coll_order which l) /\
  coll_feature_ids which l = map (fun '(k, r, v) => pack k r 0) (coll_order which l).
Proof.
  intros H1 H2. destruct (coll_order_in_range which l H1 H2) as [H3 H4].
  split; [exact (elements_element_ids_spec _ H3 H4)|exact (elements_feature_ids_spec _ H3 H4)].
Qed.

(* in particular the versions survive: distinct (ref, version) way nodes give distinct ids *)
Lemma coll_element_ids_injective which l1 l2 :
  Forall in_range3 l1 -> Forall (fun t => is_element (fst (fst t)) = true) l1 ->
  Forall in_range3 l2 -> Forall (fun t => is_element (fst (fst t)) = true) l2 ->
  coll_element_ids which l1 = coll_element_ids which l2 -> coll_order which l1 = coll_order which l2.
Proof.
  intros A1 A2 B1 B2 E.
  rewrite (proj1 (coll_ids_spec which l1 A1 A2)), (proj1 (coll_ids_spec which l2 B1 B2)) in E.
  destruct (coll_order_in_range which l1 A1 A2) as [C1 _].
  destruct (coll_order_in_range which l2 B1 B2) as [C2 _].
  revert E C1 C2. generalize (coll_order which l1) (coll_order which l2).
  induction l as [|a l IH]; intros [|b l'] E C1 C2; try discriminate E; [reflexivity|].
  cbn [map] in E. injection E as E0 E1.
  inversion C1; inversion C2; subst.
  f_equal; [apply pack_inj; assumption|apply IH; assumption].
Qed.

(* ---------- the sort clause, composed ---------- *)

Lemma sorted_element_ids l out :
  Forall in_range3 l -> Forall (fun t => is_element (fst (fst t)) = true) l ->
  Permutation (elements_element_ids l) out -> StronglySorted Z.le out ->
  exists l', Permutation l l' /\ out = map pack3 l' /\ StronglySorted lex_le l'.
Proof.
  intros H1 H2 HP HS. rewrite (elements_element_ids_spec l H1 H2) in HP.
  apply Permutation_sym in HP.
  destruct (Permutation_map_inv pack3 l HP) as [l' [E HP']].
  exists l'. split; [exact HP'|]. split; [exact E|].
  apply sorted_pack_lex.
  - eapply Permutation_Forall; [exact HP'|exact H1].
  - rewrite <- E. exact HS.
Qed.
