(* C10/ParseComplete.v — the parsers, characterised completely.

   Proofs.v shows the round trip (parse (string id) = id) and rejection (whatever is accepted has
   the kind/ref[:version] shape).  Here the converse: EVERY text of that shape (Model.shapeb,
   decided on the text alone) whose numbers fit in int64 is accepted, and the result is the
   constructor applied to the kind, reference and version the text DENOTES (Model.denoted:
   decimal value by Horner's rule, independent of the library reader used by the model).
   Together: a closed formula for the three parsers on arbitrary strings. *)
From Coq Require Import ZArith NArith List String Ascii Bool Lia DecimalString Decimal.
From Coq Require DecimalN DecimalPos DecimalFacts.
From Verif Require Import Base.Int64 C10.Model C10.Proofs C10.Conv.
From VerifGen Require Import GenIds.
Import ListNotations.
Open Scope Z_scope.

(* ---------- the library reader computes the denoted number ---------- *)

Definition str_len (s : string) : N := N.of_nat (String.length s).

Lemma of_uint_cons (k : N) (c : uint -> uint) (d : uint) :
  (forall d', Decimal.rev (c d') = Decimal.revapp d' (c Nil)) ->
  DecimalPos.Unsigned.of_lu (c Nil) = k ->
  N.of_uint (c d) = (N.of_uint d + k * 10 ^ DecimalPos.Unsigned.usize d)%N.
Proof.
  intros Hrev Hk. unfold N.of_uint.
  rewrite !DecimalPos.Unsigned.of_uint_alt, Hrev, DecimalPos.Unsigned.of_lu_revapp, Hk.
  reflexivity.
Qed.

Lemma digits_val_acc acc s :
  digits_val acc s = acc * 10 ^ Z.of_N (str_len s) + digits_val 0 s.
Proof.
  revert acc. induction s as [|a r IH]; intros acc.
  - cbn. lia.
  - cbn [digits_val]. rewrite (IH (10 * acc + digit_val a)), (IH (10 * 0 + digit_val a)).
    unfold str_len. cbn [String.length]. rewrite Nat2N.inj_succ, N2Z.inj_succ.
    rewrite Z.pow_succ_r by lia. lia.
Qed.

Lemma uint_of_digits s :
  all_digits s = true ->
  exists d, NilEmpty.uint_of_string s = Some d /\ DecimalPos.Unsigned.usize d = str_len s /\
            Z.of_N (N.of_uint d) = digits_val 0 s.
Proof.
  induction s as [|a r IH]; intros H.
  - exists Nil. repeat split.
  - cbn [all_digits] in H. apply andb_true_iff in H as [Ha Hr].
    destruct (IH Hr) as [d [Hd [Hsz Hv]]].
    cbn [NilEmpty.uint_of_string]. rewrite Hd.
    assert (Hlen : str_len (String a r) = N.succ (str_len r)).
    { unfold str_len. cbn [String.length]. apply Nat2N.inj_succ. }
    cbn [digits_val]. rewrite (digits_val_acc (10 * 0 + digit_val a) r), <- Hv, <- Hsz.
    destruct a as [[] [] [] [] [] [] [] []]; try discriminate Ha;
      (eexists; split; [reflexivity|]; split;
       [cbn [DecimalPos.Unsigned.usize]; rewrite Hsz, Hlen; reflexivity|];
       match goal with
       | |- Z.of_N (N.of_uint (?c d)) = _ =>
           rewrite (of_uint_cons (DecimalPos.Unsigned.of_lu (c Nil)) c d (fun _ => eq_refl) eq_refl)
       end;
       rewrite N2Z.inj_add, N2Z.inj_mul, N2Z.inj_pow; cbn; lia).
Qed.

(* ---------- sign handling of the three text functions, by cases ---------- *)

Lemma decimalb_nonsign a r :
  a <> "-"%char -> a <> "+"%char ->
  decimalb (String a r) = negb (String.eqb (String a r) "") && all_digits (String a r).
Proof. intros N1 N2. destruct a as [[] [] [] [] [] [] [] []]; try reflexivity; exfalso; auto. Qed.

Lemma dec_val_nonsign a r :
  a <> "-"%char -> a <> "+"%char -> dec_val (String a r) = digits_val 0 (String a r).
Proof. intros N1 N2. destruct a as [[] [] [] [] [] [] [] []]; try reflexivity; exfalso; auto. Qed.

Definition parse_body (neg : bool) (body : string) : option Z :=
  match body with
  | EmptyString => None
  | _ =>
      if all_digits body then
        match NilEmpty.uint_of_string body with
        | Some d =>
            let n := Z.of_N (N.of_uint d) in
            let z := if neg then - n else n in
            if (- two63 <=? z) && (z <? two63) then Some z else None
        | None => None
        end
      else None
  end.

Lemma parse_int64_nonsign a r :
  a <> "-"%char -> a <> "+"%char -> parse_int64 (String a r) = parse_body false (String a r).
Proof. intros N1 N2. destruct a as [[] [] [] [] [] [] [] []]; try reflexivity; exfalso; auto. Qed.

Lemma parse_int64_minus r : parse_int64 (String "-" r) = parse_body true r.
Proof. reflexivity. Qed.
Lemma parse_int64_plus r : parse_int64 (String "+" r) = parse_body false r.
Proof. reflexivity. Qed.

Lemma parse_body_char neg body :
  parse_body neg body =
  if negb (String.eqb body "") && all_digits body then
    let z := if neg then - digits_val 0 body else digits_val 0 body in
    if in_int64b z then Some z else None
  else None.
Proof.
  destruct body as [|a r]; [reflexivity|].
  unfold parse_body. cbn [String.eqb negb andb].
  destruct (all_digits (String a r)) eqn:Hd; [|reflexivity].
  destruct (uint_of_digits _ Hd) as [d [Hu [_ Hv]]]. rewrite Hu. cbv zeta. rewrite Hv.
  reflexivity.
Qed.

(* strconv.ParseInt(s, 10, 64), completely: accepted iff decimal and within int64, and then
   the value is the number the text denotes *)
Theorem parse_int64_char s :
  parse_int64 s =
  if decimalb s then (if in_int64b (dec_val s) then Some (dec_val s) else None) else None.
Proof.
  destruct s as [|a r]; [reflexivity|].
  destruct (ascii_dec a "-") as [->|N1].
  - rewrite parse_int64_minus, parse_body_char. reflexivity.
  - destruct (ascii_dec a "+") as [->|N2].
    + rewrite parse_int64_plus, parse_body_char. reflexivity.
    + rewrite (parse_int64_nonsign a r N1 N2), parse_body_char,
        (decimalb_nonsign a r N1 N2), (dec_val_nonsign a r N1 N2). reflexivity.
Qed.

Corollary parse_int64_complete s :
  decimalb s = true -> in_int64 (dec_val s) -> parse_int64 s = Some (dec_val s).
Proof.
  intros Hd Hr. rewrite parse_int64_char, Hd.
  unfold in_int64b. destruct Hr as [H1 H2].
  rewrite (proj2 (Z.leb_le _ _) H1), (proj2 (Z.ltb_lt _ _) H2). reflexivity.
Qed.

(* ---------- the three parsers, completely ---------- *)

Definition in64 (a : kind * Z * Z) : bool :=
  let '(_, r, v) := a in in_int64b r && in_int64b v.

(* closed formulas: for EVERY string *)
Theorem parse_feature_id_char s :
  parse_feature_id s =
  if shapeb 2 s then
    match denoted 2 s with
    | Some (k, r, v) => if in_int64b r then Some (feature_id k r) else None
    | None => None
    end
  else None.
Proof.
  unfold parse_feature_id, shapeb, denoted.
  destruct (split_on slash s) as [|t [|rest [|x l]]]; try reflexivity.
  change (2 =? 0) with false. change (2 =? 2) with true. cbv iota.
  rewrite parse_int64_char.
  destruct (kind_of_name t) as [k|] eqn:Ek.
  - cbv iota beta.
    destruct (decimalb rest); [|rewrite andb_false_r; reflexivity].
    destruct (in_int64b (dec_val rest)).
    + rewrite type_featureID_spec, Ek. destruct (is_element k); reflexivity.
    + destruct (is_element k); reflexivity.
  - destruct (decimalb rest); [destruct (in_int64b (dec_val rest))|]; try reflexivity.
    rewrite type_featureID_spec, Ek. reflexivity.
Qed.

Lemma parse_ref_version_char rest :
  parse_ref_version rest =
  match split_on colon rest with
  | [a] => if decimalb a && in_int64b (dec_val a) then Some (dec_val a, 0) else None
  | [a; b] =>
      if decimalb a && in_int64b (dec_val a) then
        if String.eqb b "-" then Some (dec_val a, 0)
        else if decimalb b && in_int64b (dec_val b) then Some (dec_val a, dec_val b) else None
      else None
  | _ => None
  end.
Proof.
  unfold parse_ref_version.
  destruct (split_on colon rest) as [|a [|b [|x l]]]; try reflexivity.
  - rewrite parse_int64_char. destruct (decimalb a), (in_int64b (dec_val a)); reflexivity.
  - rewrite !parse_int64_char.
    destruct (decimalb a), (in_int64b (dec_val a)); cbn [andb]; try reflexivity;
      destruct (String.eqb b "-"); try reflexivity;
      destruct (decimalb b), (in_int64b (dec_val b)); reflexivity.
Qed.

Theorem parse_object_id_char s :
  parse_object_id s =
  if shapeb 0 s then
    match denoted 0 s with
    | Some (k, r, v) => if in_int64b r && in_int64b v then Some (object_id k r v) else None
    | None => None
    end
  else None.
Proof.
  unfold parse_object_id, shapeb, denoted.
  destruct (split_on slash s) as [|t [|rest [|x l]]]; try reflexivity.
  change (0 =? 0) with true. change (0 =? 2) with false. cbv iota.
  rewrite parse_ref_version_char.
  destruct (kind_of_name t) as [k|] eqn:Ek.
  - cbn [andb].
    destruct (split_on colon rest) as [|a [|b [|y l']]]; try reflexivity.
    + destruct (decimalb a); cbn [andb]; [|reflexivity].
      destruct (in_int64b (dec_val a)); cbn [andb]; [|reflexivity].
      rewrite type_objectID_spec, Ek. reflexivity.
    + destruct (decimalb a); cbn [andb]; [|reflexivity].
      destruct (in_int64b (dec_val a)); cbn [andb].
      * destruct (String.eqb b "-"); cbn [orb].
        -- rewrite type_objectID_spec, Ek. reflexivity.
        -- destruct (decimalb b); cbn [andb]; [|reflexivity].
           destruct (in_int64b (dec_val b)); [|reflexivity].
           rewrite type_objectID_spec, Ek. reflexivity.
      * destruct (String.eqb b "-" || decimalb b); reflexivity.
  - destruct (parse_ref_version rest) as [[r v]|] eqn:E; rewrite <- ?parse_ref_version_char, ?E.
    + rewrite type_objectID_spec, Ek. reflexivity.
    + reflexivity.
Qed.

Theorem parse_element_id_char s :
  parse_element_id s =
  if shapeb 1 s then
    match denoted 1 s with
    | Some (k, r, v) => if in_int64b r && in_int64b v then Some (element_id k r v) else None
    | None => None
    end
  else None.
Proof.
  unfold parse_element_id, shapeb, denoted.
  destruct (split_on slash s) as [|t [|rest [|x l]]]; try reflexivity.
  change (1 =? 0) with false. change (1 =? 2) with false. cbv iota.
  rewrite parse_ref_version_char.
  destruct (kind_of_name t) as [k|] eqn:Ek.
  - destruct (is_element k) eqn:Hk; cbn [andb].
    + destruct (split_on colon rest) as [|a [|b [|y l']]]; try reflexivity.
      * destruct (decimalb a); cbn [andb]; [|reflexivity].
        destruct (in_int64b (dec_val a)); cbn [andb]; [|reflexivity].
        rewrite type_featureID_spec, Ek, Hk, (element_id_of_feature k _ _ Hk). reflexivity.
      * destruct (decimalb a); cbn [andb]; [|reflexivity].
        destruct (in_int64b (dec_val a)); cbn [andb].
        -- destruct (String.eqb b "-"); cbn [orb].
           ++ rewrite type_featureID_spec, Ek, Hk, (element_id_of_feature k _ _ Hk). reflexivity.
           ++ destruct (decimalb b); cbn [andb]; [|reflexivity].
              destruct (in_int64b (dec_val b)); [|reflexivity].
              rewrite type_featureID_spec, Ek, Hk, (element_id_of_feature k _ _ Hk). reflexivity.
        -- destruct (String.eqb b "-" || decimalb b); reflexivity.
    + destruct (parse_ref_version rest) as [[r v]|] eqn:E; rewrite <- ?parse_ref_version_char, ?E.
      * rewrite type_featureID_spec, Ek, Hk. reflexivity.
      * reflexivity.
  - destruct (parse_ref_version rest) as [[r v]|] eqn:E; rewrite <- ?parse_ref_version_char, ?E.
    + rewrite type_featureID_spec, Ek. reflexivity.
    + reflexivity.
Qed.

(* completeness, in the domain of the property: a text of the shape whose numbers are in range
   parses to the packed id of what it denotes *)
Corollary parse_object_id_complete s k r v :
  shapeb 0 s = true -> denoted 0 s = Some (k, r, v) -> in_range r v ->
  parse_object_id s = Some (pack k (norm_r k r) (norm_v k v)).
Proof.
  intros Hs Hd H. rewrite parse_object_id_char, Hs, Hd.
  assert (in_int64b r && in_int64b v = true) as ->.
  { destruct H as [Hr Hv]. unfold in_int64b, Int64.two63, two40, two16 in *.
    apply andb_true_iff; split; apply andb_true_iff; split;
      first [apply Z.leb_le; lia|apply Z.ltb_lt; lia]. }
  rewrite (object_id_pack k r v H). reflexivity.
Qed.

Corollary parse_element_id_complete s k r v :
  shapeb 1 s = true -> denoted 1 s = Some (k, r, v) -> in_range r v ->
  is_element k = true /\ parse_element_id s = Some (pack k r v).
Proof.
  intros Hs Hd H.
  assert (Hk : is_element k = true).
  { unfold shapeb, denoted in Hs, Hd.
    destruct (split_on slash s) as [|t [|rest [|x l]]]; try discriminate.
    destruct (kind_of_name t) as [k'|]; [|discriminate].
    change (1 =? 0) with false in Hs. change (1 =? 2) with false in Hd. cbv iota in Hs, Hd.
    apply andb_true_iff in Hs as [Hk _].
    destruct (split_on colon rest) as [|a [|b [|y l']]]; try discriminate; injection Hd as -> _ _; exact Hk. }
  split; [exact Hk|].
  rewrite parse_element_id_char, Hs, Hd.
  assert (in_int64b r && in_int64b v = true) as ->.
  { destruct H as [Hr Hv]. unfold in_int64b, Int64.two63, two40, two16 in *.
    apply andb_true_iff; split; apply andb_true_iff; split;
      first [apply Z.leb_le; lia|apply Z.ltb_lt; lia]. }
  rewrite (element_id_pack k r v Hk H). reflexivity.
Qed.

Corollary parse_feature_id_complete s k r v :
  shapeb 2 s = true -> denoted 2 s = Some (k, r, v) -> 0 <= r < two40 ->
  is_element k = true /\ parse_feature_id s = Some (pack k r 0).
Proof.
  intros Hs Hd Hr.
  assert (Hk : is_element k = true).
  { unfold shapeb, denoted in Hs, Hd.
    destruct (split_on slash s) as [|t [|rest [|x l]]]; try discriminate.
    destruct (kind_of_name t) as [k'|]; [|discriminate].
    change (2 =? 0) with false in Hs. change (2 =? 2) with true in Hd. cbv iota in Hs, Hd.
    apply andb_true_iff in Hs as [Hk _]. injection Hd as -> _ _. exact Hk. }
  split; [exact Hk|].
  rewrite parse_feature_id_char, Hs, Hd.
  assert (in_int64b r = true) as ->.
  { unfold in_int64b, Int64.two63, two40 in *.
    apply andb_true_iff; split; first [apply Z.leb_le; lia|apply Z.ltb_lt; lia]. }
  rewrite (feature_id_pack k r Hk Hr). reflexivity.
Qed.
