(* C10/Model.v — executable model of the packed identifiers (feature.go, object.go,
   element.go and the per-kind constructors).  Definitions only; proofs are in Proofs.v.

   The constructors / decoders themselves are NOT written here: they are regenerated from
   /repo's source on every run (VerifGen.GenIds).  This file holds
     - the specification side: [kind], [pack] (the arithmetic meaning of the layout),
     - the hand-written model of String / Parse* (fmt.Sprintf, strings.Split and
       strconv.ParseInt are modelled; tie: correspondence). *)

From Coq Require Import ZArith List String Ascii Bool Lia DecimalString Decimal.
From Coq Require DecimalN.
From VerifGen Require GenIds.
Import ListNotations.
Open Scope Z_scope.

Inductive kind := KBounds | KNode | KWay | KRelation | KChangeset | KNote | KUser.

Definition kind_eqb (a b : kind) : bool :=
  match a, b with
  | KBounds, KBounds | KNode, KNode | KWay, KWay | KRelation, KRelation
  | KChangeset, KChangeset | KNote, KNote | KUser, KUser => true
  | _, _ => false
  end.

Definition all_kinds := [KBounds; KNode; KWay; KRelation; KChangeset; KNote; KUser].

(* rank in the order claimed by the property: bounds < node < way < relation < ... *)
Definition rank (k : kind) : Z :=
  match k with
  | KBounds => 0 | KNode => 1 | KWay => 2 | KRelation => 3
  | KChangeset => 4 | KNote => 5 | KUser => 6
  end.

(* SPEC: the type code is the value of bits 56..62 *)
Definition kcode (k : kind) : Z :=
  match k with
  | KBounds => 8 | KNode => 16 | KWay => 32 | KRelation => 48
  | KChangeset => 64 | KNote => 80 | KUser => 96
  end.

Definition kind_name (k : kind) : string :=
  match k with
  | KBounds => "bounds" | KNode => "node" | KWay => "way" | KRelation => "relation"
  | KChangeset => "changeset" | KNote => "note" | KUser => "user"
  end%string.

Definition kind_of_name (s : string) : option kind :=
  find (fun k => String.eqb (kind_name k) s) all_kinds.

Definition two16 : Z := 65536.
Definition two40 : Z := 1099511627776.
Definition two56 : Z := 72057594037927936.
Definition two63 : Z := 9223372036854775808.

(* SPEC: arithmetic meaning of the layout *)
Definition pack (k : kind) (r v : Z) : Z := kcode k * two56 + r * two16 + v.

Definition in_range (r v : Z) : Prop := 0 <= r < two40 /\ 0 <= v < two16.
Definition in_rangeb (r v : Z) : bool :=
  (0 <=? r) && (r <? two40) && (0 <=? v) && (v <? two16).

(* versioned kinds (elements) and the others *)
Definition is_element (k : kind) : bool :=
  match k with KNode | KWay | KRelation => true | _ => false end.

(* the generated constructors, dispatched by kind (what Type.objectID does) *)
Definition object_id (k : kind) (r v : Z) : Z :=
  match k with
  | KBounds => GenIds.Bounds_ObjectID 0
  | KNode => GenIds.NodeID_ObjectID r v
  | KWay => GenIds.WayID_ObjectID r v
  | KRelation => GenIds.RelationID_ObjectID r v
  | KChangeset => GenIds.ChangesetID_ObjectID r
  | KNote => GenIds.NoteID_ObjectID r
  | KUser => GenIds.UserID_ObjectID r
  end.

Definition element_id (k : kind) (r v : Z) : Z :=
  match k with
  | KNode => GenIds.NodeID_ElementID r v
  | KWay => GenIds.WayID_ElementID r v
  | KRelation => GenIds.RelationID_ElementID r v
  | _ => 0
  end.

Definition feature_id (k : kind) (r : Z) : Z :=
  match k with
  | KNode => GenIds.NodeID_FeatureID r
  | KWay => GenIds.WayID_FeatureID r
  | KRelation => GenIds.RelationID_FeatureID r
  | _ => 0
  end.

(* the panicking conversions FeatureID.NodeID/WayID/RelationID and
   ElementID.NodeID/WayID/RelationID, dispatched by the kind asked for
   (generated as partial functions: None = panic) *)
Definition conv_feature (K : kind) (id : Z) : option Z :=
  match K with
  | KNode => GenIds.FeatureID_NodeID id
  | KWay => GenIds.FeatureID_WayID id
  | KRelation => GenIds.FeatureID_RelationID id
  | _ => None
  end.

Definition conv_element (K : kind) (id : Z) : option Z :=
  match K with
  | KNode => GenIds.ElementID_NodeID id
  | KWay => GenIds.ElementID_WayID id
  | KRelation => GenIds.ElementID_RelationID id
  | _ => None
  end.

(* ids of way nodes and relation members (generated; struct receivers became one parameter
   per field read).  Member.FeatureID / ElementID panic on a member type that is not an element
   kind: None. *)
Definition way_node_feature_id (id : Z) : Z := GenIds.WayNode_FeatureID id.
Definition way_node_element_id (id ver : Z) : Z := GenIds.WayNode_ElementID id ver.
Definition member_feature_id (typ : string) (ref : Z) : option Z := GenIds.Member_FeatureID typ ref.
Definition member_element_id (typ : string) (ref ver : Z) : option Z :=
  GenIds.Member_ElementID typ ref ver.

(* FeatureIDs.Counts:  for _, id := range ids { switch id.Type() { case TypeNode: nodes++ ... } }
   ElementIDs.Counts:  for _, id := range ids { switch id & typeMask { case nodeMask: nodes++ ... } }
   (hand model of the loops; the switch heads are the generated decoders / constants) *)
Definition counts_step_feature (acc : Z * Z * Z) (id : Z) : Z * Z * Z :=
  let '(n, w, r) := acc in
  let t := GenIds.FeatureID_Type id in
  if String.eqb t GenIds.c_TypeNode then (n + 1, w, r)
  else if String.eqb t GenIds.c_TypeWay then (n, w + 1, r)
  else if String.eqb t GenIds.c_TypeRelation then (n, w, r + 1)
  else acc.
Definition feature_ids_counts (ids : list Z) : Z * Z * Z :=
  fold_left counts_step_feature ids (0, 0, 0).

Definition counts_step_element (acc : Z * Z * Z) (id : Z) : Z * Z * Z :=
  let '(n, w, r) := acc in
  let tb := Z.land id GenIds.c_typeMask in
  if tb =? GenIds.c_nodeMask then (n + 1, w, r)
  else if tb =? GenIds.c_wayMask then (n, w + 1, r)
  else if tb =? GenIds.c_relationMask then (n, w, r + 1)
  else acc.
Definition element_ids_counts (ids : list Z) : Z * Z * Z :=
  fold_left counts_step_element ids (0, 0, 0).

(* Elements.ElementIDs / Elements.FeatureIDs / Objects.ObjectIDs: e.ElementID() / e.FeatureID() /
   o.ObjectID() of every item, in order (nil for the empty list: an empty list here) *)
(* the methods of the objects themselves (Node.ElementID() = n.ID.ElementID(n.Version), ...):
   generated from the struct-level methods, one parameter per field read (ID, Version) *)
Definition struct_object_id (k : kind) (r v : Z) : Z :=
  match k with
  | KBounds => GenIds.Bounds_ObjectID 0
  | KNode => GenIds.Node_ObjectID r v
  | KWay => GenIds.Way_ObjectID r v
  | KRelation => GenIds.Relation_ObjectID r v
  | KChangeset => GenIds.Changeset_ObjectID r
  | KNote => GenIds.Note_ObjectID r
  | KUser => GenIds.User_ObjectID r
  end.
Definition struct_element_id (k : kind) (r v : Z) : Z :=
  match k with
  | KNode => GenIds.Node_ElementID r v
  | KWay => GenIds.Way_ElementID r v
  | KRelation => GenIds.Relation_ElementID r v
  | _ => 0
  end.
Definition struct_feature_id (k : kind) (r : Z) : Z :=
  match k with
  | KNode => GenIds.Node_FeatureID r
  | KWay => GenIds.Way_FeatureID r
  | KRelation => GenIds.Relation_FeatureID r
  | _ => 0
  end.

Definition elements_element_ids (l : list (kind * Z * Z)) : list Z :=
  map (fun '(k, r, v) => struct_element_id k r v) l.
Definition elements_feature_ids (l : list (kind * Z * Z)) : list Z :=
  map (fun '(k, r, v) => struct_feature_id k r) l.
Definition objects_object_ids (l : list (kind * Z * Z)) : list Z :=
  map (fun '(k, r, v) => struct_object_id k r v) l.

(* The collection-level id functions: WayNodes.ElementIDs/FeatureIDs/NodeIDs,
   Members.ElementIDs/FeatureIDs, Nodes/Ways/Relations .ElementIDs/FeatureIDs/IDs and
   OSM.ElementIDs/FeatureIDs.  Each is a loop that applies the per-item method to every item, in
   order (OSM: nodes, then ways, then relations).  Hand model; which = 0 WayNodes, 1 Members,
   2 Nodes, 3 Ways, 4 Relations, 5 OSM.  A version of 0 is a version like any other. *)
Definition coll_order (which : Z) (l : list (kind * Z * Z)) : list (kind * Z * Z) :=
  if which =? 5 then
    (filter (fun t => kind_eqb (fst (fst t)) KNode) l ++ filter (fun t => kind_eqb (fst (fst t)) KWay) l
     ++ filter (fun t => kind_eqb (fst (fst t)) KRelation) l)%list
  else l.
Definition coll_element_ids (which : Z) (l : list (kind * Z * Z)) : list Z :=
  elements_element_ids (coll_order which l).
Definition coll_feature_ids (which : Z) (l : list (kind * Z * Z)) : list Z :=
  elements_feature_ids (coll_order which l).
Definition coll_plain_ids (which : Z) (l : list (kind * Z * Z)) : list Z :=
  map (fun t => snd (fst t)) l.

(* what a caller of the public API supplies for kind k: versionless kinds ignore v,
   bounds ignore r *)
Definition norm_r (k : kind) (r : Z) : Z := match k with KBounds => 0 | _ => r end.
Definition norm_v (k : kind) (v : Z) : Z := if is_element k then v else 0.

(* ---------- decimal text ---------- *)

Definition dec_of_Z (z : Z) : string :=
  if z <? 0 then String "-" (NilEmpty.string_of_uint (N.to_uint (Z.to_N (- z))))
  else NilEmpty.string_of_uint (N.to_uint (Z.to_N z)).

Definition is_digit (a : ascii) : bool :=
  let n := N_of_ascii a in (48 <=? n)%N && (n <=? 57)%N.

Fixpoint all_digits (s : string) : bool :=
  match s with
  | EmptyString => true
  | String a r => is_digit a && all_digits r
  end.

(* strconv.ParseInt(s, 10, 64): optional sign, at least one digit, only digits,
   value within int64 (no underscores in base 10) *)
Definition parse_int64 (s : string) : option Z :=
  let '(neg, body) :=
    match s with
    | String "-" r => (true, r)
    | String "+" r => (false, r)
    | _ => (false, s)
    end in
  match body with
  | EmptyString => None
  | _ =>
      if all_digits body then
        match NilEmpty.uint_of_string body with
        | Some d =>
            let n := Z.of_N (N.of_uint d) in
            let z := if neg then - n else n in
            if (- two63 <=? z) && (z <? two63) then Some z else None
        | None => None
        end
      else None
  end.

(* strings.Split(s, sep) for a one-character separator: always >= 1 part *)
Fixpoint split_on (c : ascii) (s : string) : list string :=
  match s with
  | EmptyString => [EmptyString]
  | String a r =>
      if Ascii.eqb a c then EmptyString :: split_on c r
      else match split_on c r with
           | p :: ps => String a p :: ps
           | [] => [String a EmptyString]
           end
  end.

Definition slash : ascii := "/"%char.
Definition colon : ascii := ":"%char.

(* ObjectID.String / ElementID.String: "%s/%d:%d" or "%s/%d:-" *)
Definition id_string (name : string) (ref ver : Z) : string :=
  (name ++ String slash (dec_of_Z ref) ++ String colon
     (if (ver =? 0)%Z then "-" else dec_of_Z ver))%string.

Definition object_id_string (id : Z) : string :=
  id_string (GenIds.ObjectID_Type id) (GenIds.ObjectID_Ref id) (GenIds.ObjectID_Version id).
Definition element_id_string (id : Z) : string :=
  id_string (GenIds.ElementID_Type id) (GenIds.ElementID_Ref id) (GenIds.ElementID_Version id).
(* FeatureID.String: "%s/%d", "unknown" for other kinds *)
Definition feature_id_string (id : Z) : string :=
  ((match GenIds.FeatureID_Type id with "" => "unknown" | t => t end)
     ++ String slash (dec_of_Z (GenIds.FeatureID_Ref id)))%string.

(* int(v) for int64 v is the identity on 64-bit platforms *)
Definition parse_ref_version (s : string) : option (Z * Z) :=
  match split_on colon s with
  | [a] => match parse_int64 a with Some r => Some (r, 0) | None => None end
  | [a; b] =>
      match parse_int64 a with
      | None => None
      | Some r =>
          if String.eqb b "-" then Some (r, 0)
          else match parse_int64 b with Some v => Some (r, v) | None => None end
      end
  | _ => None
  end.

Definition parse_object_id (s : string) : option Z :=
  match split_on slash s with
  | [t; rest] =>
      match parse_ref_version rest with
      | Some (r, v) => GenIds.Type_objectID t r v
      | None => None
      end
  | _ => None
  end.

Definition parse_element_id (s : string) : option Z :=
  match split_on slash s with
  | [t; rest] =>
      match parse_ref_version rest with
      | Some (r, v) =>
          match GenIds.Type_FeatureID t r with
          | Some f => Some (GenIds.FeatureID_ElementID f v)
          | None => None
          end
      | None => None
      end
  | _ => None
  end.

Definition parse_feature_id (s : string) : option Z :=
  match split_on slash s with
  | [t; rest] =>
      match parse_int64 rest with
      | Some r => GenIds.Type_FeatureID t r
      | None => None
      end
  | _ => None
  end.

(* ---------- SPEC for text: the shape the property names ---------- *)

(* "kind/ref" or "kind/ref:version" or "kind/ref:-" with kind known, ref/version decimal *)
Definition count_char (c : ascii) (s : string) : nat :=
  List.length (split_on c s) - 1.

(* decimal text as the property means it: optional sign, at least one digit, digits only *)
Definition decimalb (s : string) : bool :=
  match s with
  | String "-" r | String "+" r => negb (String.eqb r "") && all_digits r
  | _ => negb (String.eqb s "") && all_digits s
  end.

(* the number a decimal text denotes (Horner), independent of the library reader *)
Definition digit_val (a : ascii) : Z := Z.of_N (N_of_ascii a) - 48.
Fixpoint digits_val (acc : Z) (s : string) : Z :=
  match s with
  | EmptyString => acc
  | String a r => digits_val (10 * acc + digit_val a) r
  end.
Definition dec_val (s : string) : Z :=
  match s with
  | String "-" r => - digits_val 0 r
  | String "+" r => digits_val 0 r
  | _ => digits_val 0 s
  end.

(* the shape named by the property, decided on the text alone: exactly one '/', a known kind
   (an element kind for element and feature ids), at most one ':' (none for feature ids),
   decimal parts ("-" allowed as version).  which: 0 object id, 1 element id, 2 feature id *)
Definition shapeb (which : Z) (s : string) : bool :=
  match split_on slash s with
  | [t; rest] =>
      match kind_of_name t with
      | Some k =>
          (if which =? 0 then true else is_element k) &&
          (if which =? 2 then decimalb rest
           else match split_on colon rest with
                | [a] => decimalb a
                | [a; b] => decimalb a && (String.eqb b "-" || decimalb b)
                | _ => false
                end)
      | None => false
      end
  | _ => false
  end.

(* what a text of that shape denotes: kind, reference, version (0 when absent or "-") *)
Definition denoted (which : Z) (s : string) : option (kind * Z * Z) :=
  match split_on slash s with
  | [t; rest] =>
      match kind_of_name t with
      | Some k =>
          if which =? 2 then Some (k, dec_val rest, 0)
          else match split_on colon rest with
               | [a] => Some (k, dec_val a, 0)
               | [a; b] => Some (k, dec_val a, if String.eqb b "-" then 0 else dec_val b)
               | _ => None
               end
      | None => None
      end
  | _ => None
  end.
