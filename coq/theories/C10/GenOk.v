(* C10/GenOk.v — obligations tying the HAND-WRITTEN models (C10/Model.v: the String / Parse*
   text functions, Counts, the id lists) to the code as it is now.

   The tie is behavioural: translator/cmd/ids runs a small Go program against the repository at
   translation time and records what the functions return on a fixed id set / string corpus /
   lists (the sample_ definitions of VerifGen.GenIds).  The obligations below say that the model returns exactly
   that, by evaluation.  (Earlier versions compared fingerprints of the source text — format
   strings, "calls strings.Split" — which broke under behaviour-preserving rewrites.)
   The integer functions are tied by translation: see GenSem.v. *)
From Coq Require Import ZArith List String Bool.
From Verif Require Import Base.Wire C10.Model.
From VerifGen Require Import GenIds.
Import ListNotations.
Open Scope Z_scope.

Definition oZ_eqb := opt_eqb Z.eqb.

Definition model_string (w id : Z) : string :=
  if w =? 0 then object_id_string id else if w =? 1 then element_id_string id else feature_id_string id.

Definition model_parse (w : Z) (s : string) : option Z :=
  if w =? 0 then parse_object_id s else if w =? 1 then parse_element_id s else parse_feature_id s.

Definition kind_of_code (c : Z) : kind := nth (Z.to_nat c) all_kinds KUser.
Definition triples (l : list (Z * Z * Z)) : list (kind * Z * Z) :=
  map (fun '(k, r, v) => (kind_of_code k, r, v)) l.

Definition model_counts (w : Z) (l : list (Z * Z * Z)) : list Z :=
  let ids := objects_object_ids (triples l) in
  let '(n, wy, r) := if w =? 0 then feature_ids_counts ids else element_ids_counts ids in
  [n; wy; r].

Definition model_list (w : Z) (l : list (Z * Z * Z)) : list Z :=
  if w =? 0 then elements_element_ids (triples l)
  else if w =? 1 then elements_feature_ids (triples l)
  else objects_object_ids (triples l).

(* the samples are there (a silent empty sample would make the obligations vacuous) *)
Example samples_present :
  (100 <=? Z.of_nat (List.length sample_strings)) && (300 <=? Z.of_nat (List.length sample_parses))
  && (8 <=? Z.of_nat (List.length sample_counts)) && (8 <=? Z.of_nat (List.length sample_lists)) = true.
Proof. vm_compute. reflexivity. Qed.

Example sampled_strings_are_the_models :
  forallb (fun '(w, id, s) => String.eqb (model_string w id) s) sample_strings = true.
Proof. vm_compute. reflexivity. Qed.

Example sampled_parses_are_the_models :
  forallb (fun '(w, s, o) => oZ_eqb (model_parse w s) o) sample_parses = true.
Proof. vm_compute. reflexivity. Qed.

Example sampled_counts_are_the_models :
  forallb (fun '(w, l, o) => list_eqb Z.eqb (model_counts w l) o) sample_counts = true.
Proof. vm_compute. reflexivity. Qed.

Example sampled_id_lists_are_the_models :
  forallb (fun '(w, l, o) => list_eqb Z.eqb (model_list w l) o) sample_lists = true.
Proof. vm_compute. reflexivity. Qed.
