(* C10/GenOk.v — obligations tying the hand-written text model (C10/Model.v: id_string,
   feature_id_string and the parse functions) to what the source says now: the Sprintf format strings of the
   String methods, the separators and the ParseInt base/width used by the parsers, as
   re-extracted from /repo by translator/cmd/ids on every run. *)
From Coq Require Import ZArith List String Bool.
From VerifGen Require Import GenIds.
Import ListNotations.
Open Scope string_scope.

Example object_string_formats : lits_ObjectID_String = ["%s/%d:-"; "%s/%d:%d"].
Proof. reflexivity. Qed.
Example element_string_formats : lits_ElementID_String = ["%s/%d:-"; "%s/%d:%d"].
Proof. reflexivity. Qed.
Example feature_string_formats : lits_FeatureID_String = ["unknown"; "%s/%d"].
Proof. reflexivity. Qed.

Definition has (s : string) (l : list string) : bool := existsb (String.eqb s) l.
Definition hasz (z : Z) (l : list Z) : bool := existsb (Z.eqb z) l.

Example parsers_use_model_separators :
  has "/" lits_ParseObjectID && has ":" lits_ParseObjectID && has "-" lits_ParseObjectID &&
  has "/" lits_ParseElementID && has ":" lits_ParseElementID && has "-" lits_ParseElementID &&
  has "/" lits_ParseFeatureID && negb (has ":" lits_ParseFeatureID) &&
  hasz 10 ints_ParseObjectID && hasz 64 ints_ParseObjectID &&
  hasz 10 ints_ParseElementID && hasz 64 ints_ParseElementID &&
  hasz 10 ints_ParseFeatureID && hasz 64 ints_ParseFeatureID &&
  has "strings.Split" calls_ParseObjectID && has "strconv.ParseInt" calls_ParseObjectID &&
  has "strings.Split" calls_ParseElementID && has "strconv.ParseInt" calls_ParseElementID &&
  has "strings.Split" calls_ParseFeatureID && has "strconv.ParseInt" calls_ParseFeatureID = true.
Proof. vm_compute. reflexivity. Qed.

(* the loops modelled by hand in Model.v (Counts, id lists): the calls the source makes now.
   FeatureIDs.Counts switches on id.Type(), ElementIDs.Counts on the masked integer (no call);
   the id lists append e.ElementID() / e.FeatureID() / o.ObjectID() of every item. *)
Example loops_use_modelled_calls :
  has "id.Type" calls_FeatureIDs_Counts && negb (has "id.Type" calls_ElementIDs_Counts) &&
  has "e.ElementID" calls_Elements_ElementIDs && has "append" calls_Elements_ElementIDs &&
  has "e.FeatureID" calls_Elements_FeatureIDs && has "append" calls_Elements_FeatureIDs &&
  has "o.ObjectID" calls_Objects_ObjectIDs && has "append" calls_Objects_ObjectIDs = true.
Proof. vm_compute. reflexivity. Qed.
