(* C10/OutOfRange.v — what the generated constructors do OUTSIDE the domain of the property:
   negative references, references >= 2^40, versions outside [0, 2^16).  Nothing here is a
   guarantee of the library; these are theorems about the code as it is, stated because
   decoders of other formats hand such values to the constructors.

   Layout: bit 63 sign | bits 56..62 type | bits 16..55 reference | bits 0..15 version.
   FeatureID = mask | (ref << 16) in int64 arithmetic, so
     - the reference field holds  ref mod 2^40  (two's complement: -1 reads back as 2^40 - 1),
     - bits 40..46 of ref are OR-ed INTO the type field (the kind is clobbered, ids of different
       kinds and references collide),
     - bit 47 of ref becomes the sign bit, bits 48..63 of ref are lost,
     - a version v is stored as  v mod 2^16  (versionMask & v). *)
From Coq Require Import ZArith List String Bool Lia.
From Verif Require Import Base.Int64 C10.Model C10.GenSem C10.Proofs.
From VerifGen Require Import GenIds.
Import ListNotations.
Open Scope Z_scope.

Local Ltac Zify.zify_post_hook ::= Z.div_mod_to_equations.

(* ---------- int64 wrap keeps the low 64 bits ---------- *)

Lemma wrap64_mod z : (wrap64 z) mod two64 = z mod two64.
Proof. unfold wrap64, two63, two64. lia. Qed.

Lemma testbit_wrap64 z n : 0 <= n < 64 -> Z.testbit (wrap64 z) n = Z.testbit z n.
Proof.
  intros Hn.
  rewrite <- (Z.mod_pow2_bits_low (wrap64 z) 64 n) by lia.
  rewrite <- (Z.mod_pow2_bits_low z 64 n) by lia.
  change (2 ^ 64) with two64. rewrite wrap64_mod. reflexivity.
Qed.

(* ---------- the masks, bit by bit ---------- *)

Lemma refMask_bits m : 0 <= m -> Z.testbit c_refMask m = (16 <=? m) && (m <? 56).
Proof.
  intros Hm. change c_refMask with (Z.shiftl (Z.ones 40) 16).
  rewrite Z.shiftl_spec by lia.
  destruct (16 <=? m) eqn:E1; cbn [andb].
  - apply Z.leb_le in E1. destruct (m <? 56) eqn:E2.
    + apply Z.ltb_lt in E2. apply Z.ones_spec_low. lia.
    + apply Z.ltb_ge in E2. apply Z.ones_spec_high. lia.
  - apply Z.leb_gt in E1. apply Z.testbit_neg_r. lia.
Qed.

Lemma typeMask_bits m : 0 <= m -> Z.testbit c_typeMask m = (56 <=? m) && (m <? 63).
Proof.
  intros Hm. change c_typeMask with (Z.shiftl (Z.ones 7) 56).
  rewrite Z.shiftl_spec by lia.
  destruct (56 <=? m) eqn:E1; cbn [andb].
  - apply Z.leb_le in E1. destruct (m <? 63) eqn:E2.
    + apply Z.ltb_lt in E2. apply Z.ones_spec_low. lia.
    + apply Z.ltb_ge in E2. apply Z.ones_spec_high. lia.
  - apply Z.leb_gt in E1. apply Z.testbit_neg_r. lia.
Qed.

Lemma versionMask_bits m : 0 <= m -> Z.testbit c_versionMask m = (m <? 16).
Proof.
  intros Hm. change c_versionMask with (Z.ones 16).
  destruct (m <? 16) eqn:E.
  - apply Z.ltb_lt in E. apply Z.ones_spec_low. lia.
  - apply Z.ltb_ge in E. apply Z.ones_spec_high. lia.
Qed.

Lemma small_bits_high a n m : 0 <= a < 2 ^ n -> 0 <= n <= m -> Z.testbit a m = false.
Proof.
  intros Ha Hm. rewrite <- (Z.mod_small a (2 ^ n)) by lia.
  apply Z.mod_pow2_bits_high. lia.
Qed.

(* the id built for an element kind k from ANY int64 reference r *)
Definition raw_feature (k : kind) (r : Z) : Z := Z.lor (kcode k * two56) (wrap64 (Z.shiftl r 16)).

Lemma feature_id_raw k r : is_element k = true -> feature_id k r = raw_feature k r.
Proof.
  destruct k; intros H; try discriminate H; cbn [feature_id];
    rewrite ?NodeID_FeatureID_sem, ?WayID_FeatureID_sem, ?RelationID_FeatureID_sem; reflexivity.
Qed.

Lemma raw_feature_bits k r m :
  0 <= m < 64 ->
  Z.testbit (raw_feature k r) m =
  (if 56 <=? m then Z.testbit (kcode k) (m - 56) else false) || (if 16 <=? m then Z.testbit r (m - 16) else false).
Proof.
  intros Hm. unfold raw_feature. rewrite Z.lor_spec, testbit_wrap64 by lia.
  f_equal.
  - change two56 with (2 ^ 56). rewrite <- Z.shiftl_mul_pow2 by lia.
    rewrite Z.shiftl_spec by lia.
    destruct (56 <=? m) eqn:E; [reflexivity|].
    apply Z.leb_gt in E. apply Z.testbit_neg_r. lia.
  - rewrite Z.shiftl_spec by lia.
    destruct (16 <=? m) eqn:E; [reflexivity|].
    apply Z.leb_gt in E. apply Z.testbit_neg_r. lia.
Qed.

(* ---------- reference: any int64 r reads back as r mod 2^40 ---------- *)

Lemma ref_of_raw_feature k r : ObjectID_Ref (raw_feature k r) = r mod two40.
Proof.
  rewrite ObjectID_Ref_sem. unfold ref_spec. apply Z.bits_inj'. intros n Hn.
  change c_versionBits with 16. rewrite Z.shiftr_spec by lia.
  rewrite Z.land_spec, refMask_bits by lia.
  change two40 with (2 ^ 40).
  destruct (n <? 40) eqn:E.
  - apply Z.ltb_lt in E. rewrite Z.mod_pow2_bits_low by lia.
    rewrite raw_feature_bits by lia.
    replace (56 <=? n + 16) with false by (symmetry; apply Z.leb_gt; lia).
    replace (16 <=? n + 16) with true by (symmetry; apply Z.leb_le; lia).
    replace (n + 16 <? 56) with true by (symmetry; apply Z.ltb_lt; lia).
    replace (n + 16 - 16) with n by lia. cbn [orb andb]. apply andb_true_r.
  - apply Z.ltb_ge in E. rewrite Z.mod_pow2_bits_high by lia.
    replace (n + 16 <? 56) with false by (symmetry; apply Z.ltb_ge; lia).
    rewrite andb_false_r. apply andb_false_r.
Qed.

(* ---------- type field: kind code OR bits 40..46 of the reference ---------- *)

Lemma type_bits_of_raw_feature k r :
  Z.land (raw_feature k r) c_typeMask = Z.lor (kcode k) ((r / two40) mod 128) * two56.
Proof.
  apply Z.bits_inj'. intros m Hm.
  rewrite Z.land_spec, typeMask_bits by lia.
  change two56 with (2 ^ 56). rewrite <- Z.shiftl_mul_pow2 by lia.
  rewrite Z.shiftl_spec by lia. rewrite Z.lor_spec.
  change two40 with (2 ^ 40). rewrite <- Z.shiftr_div_pow2 by lia.
  change 128 with (2 ^ 7).
  pose proof (kcode_range k) as Hk.
  destruct (56 <=? m) eqn:E1.
  - apply Z.leb_le in E1. destruct (m <? 63) eqn:E2.
    + apply Z.ltb_lt in E2. rewrite raw_feature_bits by lia.
      replace (56 <=? m) with true by (symmetry; apply Z.leb_le; lia).
      replace (16 <=? m) with true by (symmetry; apply Z.leb_le; lia).
      rewrite Z.mod_pow2_bits_low by lia. rewrite Z.shiftr_spec by lia.
      replace (m - 56 + 40) with (m - 16) by lia. cbn [andb]. apply andb_true_r.
    + apply Z.ltb_ge in E2. rewrite andb_false_r.
      rewrite (small_bits_high (kcode k) 7 (m - 56)) by (change (2 ^ 7) with 128; lia).
      rewrite Z.mod_pow2_bits_high by lia. reflexivity.
  - apply Z.leb_gt in E1. cbn [andb]. rewrite andb_false_r.
    symmetry. rewrite Z.testbit_neg_r by lia. rewrite Z.testbit_neg_r by lia. reflexivity.
Qed.

(* the kind decodes correctly exactly when bits 40..46 of the reference add nothing to the code *)
Lemma type_of_raw_feature_ok k r :
  Z.lor (kcode k) ((r / two40) mod 128) = kcode k ->
  Z.land (raw_feature k r) c_typeMask = kcode k * two56.
Proof. intros H. rewrite type_bits_of_raw_feature, H. reflexivity. Qed.

(* sign: bit 47 of the reference *)
Lemma sign_of_raw_feature k r : Z.testbit (raw_feature k r) 63 = Z.testbit r 47.
Proof.
  rewrite raw_feature_bits by lia. cbn [Z.leb Z.compare Pos.compare Pos.compare_cont].
  pose proof (kcode_range k) as Hk.
  rewrite (small_bits_high (kcode k) 7 (63 - 56)) by (change (2 ^ 7) with 128; lia).
  reflexivity.
Qed.

(* ---------- version: any v is stored as v mod 2^16, the feature part is untouched ---------- *)

Lemma version_any f v :
  Z.land f c_versionMask = 0 ->
  ObjectID_Version (FeatureID_ElementID f v) = v mod two16.
Proof.
  intros Hf. rewrite ObjectID_Version_sem, FeatureID_ElementID_sem. unfold version_spec, ver_spec.
  apply Z.bits_inj'. intros n Hn.
  rewrite Z.land_spec, Z.lor_spec, Z.land_spec, versionMask_bits by lia.
  assert (Hfn : Z.testbit f n && (n <? 16) = false).
  { rewrite <- (versionMask_bits n Hn), <- Z.land_spec, Hf. apply Z.bits_0. }
  change two16 with (2 ^ 16).
  destruct (n <? 16) eqn:E.
  - apply Z.ltb_lt in E. rewrite Z.mod_pow2_bits_low by lia.
    rewrite andb_true_r in *. rewrite Hfn. reflexivity.
  - apply Z.ltb_ge in E. rewrite Z.mod_pow2_bits_high by lia. apply andb_false_r.
Qed.

Lemma raw_feature_low_bits k r : Z.land (raw_feature k r) c_versionMask = 0.
Proof.
  apply Z.bits_inj'. intros n Hn. rewrite Z.land_spec, versionMask_bits, Z.bits_0 by lia.
  destruct (n <? 16) eqn:E; [|apply andb_false_r].
  apply Z.ltb_lt in E. rewrite raw_feature_bits by lia.
  replace (56 <=? n) with false by (symmetry; apply Z.leb_gt; lia).
  replace (16 <=? n) with false by (symmetry; apply Z.leb_gt; lia).
  reflexivity.
Qed.

(* ---------- consequences, for the generated constructors ---------- *)

Theorem feature_ref_any k r :
  is_element k = true -> FeatureID_Ref (feature_id k r) = r mod two40.
Proof. intros Hk. rewrite (feature_id_raw k r Hk), feature_ref_eq. exact (ref_of_raw_feature k r). Qed.

Theorem feature_type_bits_any k r :
  is_element k = true ->
  Z.land (feature_id k r) c_typeMask = Z.lor (kcode k) ((r / two40) mod 128) * two56.
Proof. intros Hk. rewrite (feature_id_raw k r Hk). exact (type_bits_of_raw_feature k r). Qed.

Theorem feature_sign_any k r :
  is_element k = true -> Z.testbit (feature_id k r) 63 = Z.testbit r 47.
Proof. intros Hk. rewrite (feature_id_raw k r Hk). exact (sign_of_raw_feature k r). Qed.

Theorem element_version_any k r v :
  is_element k = true -> ElementID_Version (element_id k r v) = v mod two16.
Proof.
  intros Hk. rewrite (element_id_of_feature k r v Hk), (feature_id_raw k r Hk).
  rewrite element_version_eq.
  apply version_any. apply raw_feature_low_bits.
Qed.

(* negative references: the reference reads back as r + 2^40 and every type bit is set, so the
   id has no kind *)
Theorem negative_ref k r :
  is_element k = true -> - two40 <= r < 0 ->
  FeatureID_Ref (feature_id k r) = r + two40 /\ FeatureID_Type (feature_id k r) = ""%string.
Proof.
  intros Hk Hr. split.
  - rewrite (feature_ref_any k r Hk). unfold two40 in *. lia.
  - rewrite FeatureID_Type_sem. unfold feature_type_spec. rewrite (feature_type_bits_any k r Hk).
    replace ((r / two40) mod 128) with 127 by (unfold two40 in *; lia).
    destruct k; try discriminate Hk; reflexivity.
Qed.

(* references >= 2^40 alias other ids: the id only depends on r mod 2^40 and on the type bits
   that r clobbers *)
Theorem ref_collisions :
  feature_id KNode (2 ^ 45) = feature_id KRelation 0 /\
  feature_id KNode (2 ^ 44 + 7) = feature_id KNode 7 /\
  FeatureID_Type (feature_id KNode (2 ^ 40)) = ""%string /\
  feature_id KNode (2 ^ 48 + 7) = feature_id KNode 7 /\
  feature_id KWay (2 ^ 47) < 0.
Proof. vm_compute. repeat split. Qed.
