(* C08/Check.v — one harness case = one generated PBF file scanned unfiltered and under several
   scanner configurations (executable only).

   Layout:  pool; blocks : list (block_d, tree);
            unfiltered : list (obj, tol)            (procs = 1, no skip flags, no filters)
            runs : list (skip_nodes skip_ways skip_rels, pred_node pred_way pred_rel,
                         procs list, status, list (obj, tol), stable)
            stable = every object the scanner returned still deep-equals, at the end of the scan,
            the snapshot taken when it was returned.
   Codes:   1  model scan_file (cfg) procs trees <> observed
            2  property oracle: observed <> filter (keeps cfg) unfiltered, or not stable, or Err() <> nil,
               or the unfiltered scan itself is not the sequence the file encodes (so that the
               subsequence is taken from the right sequence; objects reach the consumer only after
               their whole block was decoded, so in-block overwrites show up here)
            3  canonical form of a tree <> encode_block of its description
            0  case does not parse *)
From Coq Require Import ZArith List Bool.
From Verif Require Import Base.Int64 Base.Wire Pbf.Tree Pbf.Model Pbf.Spec Pbf.Header Pbf.CheckLib.
Import ListNotations.
Open Scope Z_scope.
Open Scope wire_scope.

Record run := mkRun { ru_cfg : cfg; ru_procs : list Z; ru_status : Z; ru_objs : list (obj * bool); ru_stable : bool }.

Definition prun (pool : list bytes) : P run :=
  sn <- pbool ;; sw <- pbool ;; sr <- pbool ;; pn <- ppred ;; pw <- ppred ;; pr <- ppred ;;
  procs <- plist pint ;; st <- pint ;; objs <- plist (pobj pool) ;; stable <- pbool ;;
  ret (mkRun (cfg_of sn sw sr pn pw pr) procs st objs stable).

Definition run_codes (trees : list msg) (unfiltered : list obj) (r : run) : list Z :=
  let objs := map fst (ru_objs r) in
  let j1 := forallb (fun p =>
              match scan_file (ru_cfg r) (Z.to_nat p) trees with
              | Ok q => (ru_status r =? 0) && objs_eqb q objs
              | Err _ => ru_status r =? 1
              | Panic => ru_status r =? 2
              end) (ru_procs r) in
  let j2 := (ru_status r =? 0) && ru_stable r && objs_eqb objs (filter (keeps (ru_cfg r)) unfiltered) in
  code_if j1 1 ++ code_if j2 2.

Definition check_case (t : toks) : list Z :=
  match parse_all (pool <- plist pbytes ;; bs <- plist (ppair pblock_d ptree) ;;
                   un <- plist (pobj pool) ;; rs <- plist (prun pool) ;; ret (bs, un, rs)) t with
  | None => [0]
  | Some (bs, un, rs) =>
      let trees := map snd bs in
      let j3 := forallb (fun b => msg_eqb (canon_block (snd b)) (encode_block (fst b))) bs in
      let j2u := objs_eqb (map fst un) (flat_map (fun b => elements (fst b)) bs) && forallb snd un in
      nodup Z.eq_dec (flat_map (run_codes trees (map fst un)) rs ++ code_if j2u 2 ++ code_if j3 3
                      ++ code_if (negb (match rs with [] => true | _ => false end)) 0)
  end.
