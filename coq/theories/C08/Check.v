(* C08/Check.v — one harness case = one generated PBF file scanned unfiltered and under several
   scanner configurations (executable only).

   Layout:  pool; blocks : list (opt block_d, tree);
            unfiltered : status, list (obj, tol)    (procs = 1, no skip flags, no filters)
            runs : list (skip_nodes skip_ways skip_rels, pred_node pred_way pred_rel,
                         procs list, status, list (obj, tol), stable)
            stable = every object the scanner returned still deep-equals, at the end of the scan,
            the snapshot taken when it was returned (or, for the consumer that writes into and
            appends to what it was given, the state that consumer left it in).
            A block without a description (round 3) is a block the description language cannot
            express (plain, non-dense Node messages): such a file is judged by the model on the
            tree alone, and by the subsequence oracle whenever its unfiltered scan succeeds.
   Codes:   1  model scan_file (cfg) procs trees <> observed (also for the unfiltered scan of a file
               with an undescribed block)
            2  property oracle: observed <> filter (keeps cfg) unfiltered, or not stable, or Err() <> nil
               although the unfiltered scan succeeded, or (all blocks described) the unfiltered scan
               itself is not the sequence the file encodes (so that the subsequence is taken from the
               right sequence; objects reach the consumer only after their whole block was decoded,
               so in-block overwrites show up here)
            3  canonical form of a tree <> encode_block of its description
            4  a description is outside valid_block, or the model answers E_WIRE on a tree (not
               well-typed, see Pbf/Tree.v: outside the domain on which the model speaks for the
               implementation): generator defects
            0  case does not parse *)
From Coq Require Import ZArith List Bool.
From Verif Require Import Base.Int64 Base.Wire Pbf.Tree Pbf.Model Pbf.Spec Pbf.Header Pbf.CheckLib.
Import ListNotations.
Open Scope Z_scope.
Open Scope wire_scope.

Record run := mkRun { ru_cfg : cfg; ru_procs : list Z; ru_status : Z; ru_objs : list (obj * bool); ru_stable : bool }.

Definition prun (pool : list bytes) : P run :=
  sn <- pbool ;; sw <- pbool ;; sr <- pbool ;; pn <- ppred ;; pw <- ppred ;; pr <- ppred ;;
  procs <- plist pint ;; st <- pint ;; objs <- plist (pobj pool) ;; stable <- pbool ;;
  ret (mkRun (cfg_of sn sw sr pn pw pr) procs st objs stable).

Definition agrees (c : cfg) (trees : list msg) (procs : list Z) (status : Z) (objs : list obj) : bool :=
  forallb (fun p =>
            match scan_file c (Z.to_nat p) trees with
            | Ok q => (status =? 0) && objs_eqb q objs
            | Err _ => status =? 1
            | Panic => status =? 2
            end) procs.

Definition run_codes (trees : list msg) (ust : Z) (unfiltered : list obj) (r : run) : list Z :=
  let objs := map fst (ru_objs r) in
  let j1 := agrees (ru_cfg r) trees (ru_procs r) (ru_status r) objs in
  let j2 := ru_stable r &&
            (if ust =? 0 then (ru_status r =? 0) && objs_eqb objs (filter (keeps (ru_cfg r)) unfiltered)
             else true) in
  code_if j1 1 ++ code_if j2 2.

Definition check_case (t : toks) : list Z :=
  match parse_all (pool <- plist pbytes ;; bs <- plist (ppair (popt pblock_d) ptree) ;;
                   ust <- pint ;; un <- plist (pobj pool) ;; rs <- plist (prun pool) ;; ret (bs, ust, un, rs)) t with
  | None => [0]
  | Some (bs, ust, un, rs) =>
      let trees := map snd bs in
      let described := forallb (fun b => match fst b with Some _ => true | None => false end) bs in
      let j3 := forallb (fun b => match fst b with
                                  | Some d => msg_eqb (canon_block (snd b)) (encode_block d)
                                  | None => true end) bs in
      let j1u := described || agrees cfg_all trees [1] ust (map fst un) in
      let j2u := negb described ||
                 ((ust =? 0) && forallb snd un &&
                  objs_eqb (map fst un) (flat_map (fun b => match fst b with Some d => elements d | None => [] end) bs)) in
      nodup Z.eq_dec (flat_map (run_codes trees ust (map fst un)) rs ++ code_if j1u 1 ++ code_if j2u 2 ++ code_if j3 3
                      ++ code_if (forallb (fun b => match fst b with Some d => valid_block d | None => true end) bs
                                  && match scan_file cfg_all 1 trees with Err c => negb (c =? E_WIRE) | _ => true end) 4
                      ++ code_if (negb (match rs with [] => true | _ => false end)) 0)
  end.
